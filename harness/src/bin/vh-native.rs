//! Replays a file produced by irsym against the natively compiled crate.
//!
//! File format (one directive per line):
//!   mode seq|conc
//!   setup <fn>        (optional)
//!   entry <fn>        (seq: the function; conc: one per thread, in thread-id order starting at 1)
//!   final <fn>        (optional)
//!   nondet <thread> <id> <value>
//!   schedule <t> <t> <t> ...
//!   trace
use std::collections::{HashMap, VecDeque};
use std::sync::Mutex;
use vh::native;

fn lookup(name: &str) -> extern "C" fn() {
    for (n, f) in vh::registry::REGISTRY {
        if *n == name {
            return *f;
        }
    }
    println!("UNKNOWN-FUNCTION {}", name);
    std::process::exit(5);
}

fn main() {
    let path = std::env::args().nth(1).expect("usage: vh-native <replay file>");
    let text = std::fs::read_to_string(&path).expect("cannot read replay file");
    let mut mode = String::from("seq");
    let mut setup = None;
    let mut fin = None;
    let mut entries = Vec::new();
    let mut nondet: HashMap<i64, VecDeque<(u32, u64)>> = HashMap::new();
    let mut schedule = Vec::new();
    let mut trace = false;
    let mut adversary: Option<String> = None;
    let mut budget = 0usize;
    let mut freeze = 0usize;
    let mut subject = 0usize;
    let mut pres: HashMap<usize, String> = HashMap::new();
    for line in text.lines() {
        let w: Vec<&str> = line.split_whitespace().collect();
        if w.is_empty() || w[0].starts_with('#') {
            continue;
        }
        match w[0] {
            "mode" => mode = w[1].to_string(),
            "setup" => setup = Some(w[1].to_string()),
            "final" => fin = Some(w[1].to_string()),
            "entry" => entries.push(w[1].to_string()),
            "nondet" => nondet
                .entry(w[1].parse().unwrap())
                .or_default()
                .push_back((w[2].parse().unwrap(), w[3].parse().unwrap())),
            "schedule" => schedule.extend(w[1..].iter().map(|x| x.parse::<i64>().unwrap())),
            "trace" => trace = true,
            "adversary" => adversary = Some(w[1].to_string()),
            "freeze" => {
                for x in &w[1..] {
                    freeze |= 1usize << x.parse::<usize>().unwrap();
                }
            }
            "subject" => subject = w[1].parse().unwrap(),
            "budget" => budget = w[1].parse().unwrap(),
            "pre" => {
                pres.insert(w[1].parse().unwrap(), w[2].to_string());
            }
            _ => {}
        }
    }
    std::panic::set_hook(Box::new(|info| {
        if info.payload().downcast_ref::<native::UserPanic>().is_some() {
            return;
        }
        let loc = info.location().map(|l| format!("{}:{}", l.file(), l.line())).unwrap_or_default();
        let msg = info
            .payload()
            .downcast_ref::<&str>()
            .map(|s| s.to_string())
            .or_else(|| info.payload().downcast_ref::<String>().cloned())
            .unwrap_or_default();
        println!("PANIC at {} thread={} msg={}", loc, native::my_id(), msg.replace('\n', " "));
    }));
    native::install(native::Replay { nondet: Mutex::new(nondet), schedule, trace });

    let run = |name: String, id: i64| -> bool {
        let f = lookup(&name);
        let h = std::thread::Builder::new()
            .name(name.clone())
            .spawn(move || {
                native::set_my_id(id);
                let r = std::panic::catch_unwind(|| f());
                native::shutdown_workers();
                r.is_ok()
            })
            .unwrap();
        h.join().unwrap_or(false)
    };

    let mut ok = true;
    if mode == "adversary" {
        // setup, prologue of the reader on its own thread, then the reader body with a full write by a helper
        // thread before every one of its atomic steps
        if let Some(s) = setup.clone() {
            lookup(&s)();
        }
        let adv = lookup(adversary.as_ref().expect("adversary <fn> missing"));
        let body = lookup(&entries[0]);
        let pre = pres.get(&1).map(|p| lookup(p));
        let h = std::thread::spawn(move || {
            if let Some(p) = pre {
                p();
            }
            native::install_adversary(adv, budget);
            native::set_my_id(1);
            let r = std::panic::catch_unwind(|| body());
            native::set_my_id(-1);
            r.is_ok()
        });
        let ok = h.join().unwrap_or(false);
        println!("DONE ok={} assert_failed={} steps={}", ok, native::failed(), native::STEPS.load(std::sync::atomic::Ordering::SeqCst));
        std::process::exit(if ok && !native::failed() { 0 } else { 1 });
    }
    if mode == "seq" {
        if let Some(s) = setup {
            ok &= run(s, 0);
        }
        for e in entries {
            ok &= run(e, 0);
        }
    } else {
        if let Some(s) = setup {
            // setup runs on the main replay thread without gating
            let f = lookup(&s);
            f();
        }
        let mut hs = Vec::new();
        let n = entries.len();
        let turn = std::sync::Arc::new(std::sync::atomic::AtomicUsize::new(1));
        let barrier = std::sync::Arc::new(std::sync::Barrier::new(n));
        // bodies still running; threads that announce their own exit leave at once, the others stay until every
        // body is done
        let remaining = std::sync::Arc::new(std::sync::atomic::AtomicUsize::new(n));
        let frozen_mode = freeze != 0;
        native::FREEZE.store(freeze, std::sync::atomic::Ordering::SeqCst);
        let done_flags: &'static [std::sync::atomic::AtomicBool; 8] = Box::leak(Box::new(Default::default()));
        for (i, e) in entries.into_iter().enumerate() {
            let f = lookup(&e);
            let id = i as i64 + 1;
            let pre = pres.get(&(i + 1)).map(|p| lookup(p));
            let turn = turn.clone();
            let barrier = barrier.clone();
            let remaining = remaining.clone();
            hs.push(std::thread::spawn(move || {
                // prologues run one after another, ungated, each on its own thread
                while turn.load(std::sync::atomic::Ordering::SeqCst) != id as usize {
                    std::thread::yield_now();
                }
                if let Some(p) = pre {
                    p();
                }
                turn.fetch_add(1, std::sync::atomic::Ordering::SeqCst);
                barrier.wait();
                native::set_my_id(id);
                let r = std::panic::catch_unwind(|| f());
                if native::EXIT_NOW.with(|e| e.get()) {
                    // the body announced the exit of this thread: leave now, still gated, so that the
                    // thread-local destructors run as part of the schedule
                    done_flags[id as usize].store(true, std::sync::atomic::Ordering::SeqCst);
                    remaining.fetch_sub(1, std::sync::atomic::Ordering::SeqCst);
                    return r.is_ok();
                }
                native::set_my_id(-1);
                done_flags[id as usize].store(true, std::sync::atomic::Ordering::SeqCst);
                // no thread exits (and runs its thread-local destructors) before all bodies are done
                remaining.fetch_sub(1, std::sync::atomic::Ordering::SeqCst);
                while !frozen_mode && remaining.load(std::sync::atomic::Ordering::SeqCst) != 0 {
                    std::thread::yield_now();
                }
                r.is_ok()
            }));
        }
        if frozen_mode {
            // the others are suspended for ever; the subject has to finish on its own
            let start = std::time::Instant::now();
            while !done_flags[subject].load(std::sync::atomic::Ordering::SeqCst) {
                if start.elapsed() > std::time::Duration::from_secs(10) {
                    println!("HANG thread={} did not finish alone within 10 s while the others were suspended", subject);
                    std::process::exit(8);
                }
                std::thread::sleep(std::time::Duration::from_millis(20));
            }
            println!("DONE ok=true assert_failed={} steps={} (subject finished alone)", native::failed(), native::STEPS.load(std::sync::atomic::Ordering::SeqCst));
            std::process::exit(if native::failed() { 1 } else { 0 });
        }
        for h in hs {
            ok &= h.join().unwrap_or(false);
        }
        if let Some(s) = fin {
            let f = lookup(&s);
            f();
        }
    }
    println!("DONE ok={} assert_failed={} steps={}", ok, native::failed(), native::STEPS.load(std::sync::atomic::Ordering::SeqCst));
    std::process::exit(if ok && !native::failed() { 0 } else { 1 });
}
