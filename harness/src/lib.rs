//! Scenario + oracle code for irsym. Compiled to LLVM IR (deciding step) and natively (replay).
#![allow(clippy::missing_safety_doc)]

pub mod rt;
pub mod vptr;
pub mod scn_basic;
