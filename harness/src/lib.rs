//! Scenario + oracle code for irsym. Compiled to LLVM IR (deciding step) and natively (replay).
#![allow(clippy::missing_safety_doc)]

pub mod rt;
pub mod vptr;
#[cfg(feature = "native")]
pub mod native;
#[cfg(feature = "native")]
pub mod registry;

pub mod scn_basic;
pub mod scn_c13;
pub mod scn_conc;
pub mod scn_c09;
pub mod scn_r3;
pub mod scn_c14;
pub mod scn_c14o;
pub mod scn_seq;
pub mod scn_c18;
pub mod scn_c18c;
#[cfg(feature = "test-strategies")]
pub mod scn_c18n;
#[cfg(feature = "test-strategies")]
pub mod scn_nf;
#[cfg(feature = "serde")]
pub mod scn_c20;
