//! Native implementation of the `verif_*` interface: replays inputs and schedules found by the
//! solver against the real, natively compiled crate (hooks ON: `--cfg arc_swap_verif`).
use std::cell::Cell;
use std::collections::{HashMap, VecDeque};
use std::sync::atomic::{AtomicBool, AtomicUsize, Ordering::*};
use std::sync::mpsc::{channel, Sender};
use std::sync::Mutex;
use std::time::{Duration, Instant};

thread_local! {
    /// id of this thread in the replay (-1: not part of it, passes every gate)
    static MY_ID: Cell<i64> = const { Cell::new(-1) };
    static GATED: Cell<bool> = const { Cell::new(false) };
}

pub struct Replay {
    pub nondet: Mutex<HashMap<i64, VecDeque<(u32, u64)>>>,
    pub schedule: Vec<i64>,
    pub trace: bool,
}

static mut REPLAY: Option<Replay> = None;
static POS: AtomicUsize = AtomicUsize::new(0);
static FAILED: AtomicBool = AtomicBool::new(false);
static FREE_RUN: AtomicBool = AtomicBool::new(true);
pub static STEPS: AtomicUsize = AtomicUsize::new(0);

#[allow(static_mut_refs)]
fn replay() -> &'static Replay {
    unsafe { REPLAY.as_ref().expect("replay not installed") }
}

#[allow(static_mut_refs)]
pub fn install(r: Replay) {
    let has_sched = !r.schedule.is_empty();
    unsafe { REPLAY = Some(r) };
    POS.store(0, SeqCst);
    FREE_RUN.store(!has_sched, SeqCst);
    #[cfg(arc_swap_verif)]
    arc_swap::verif_hooks::set_gate(Some(arc_swap::verif_hooks::Gate {
        enter: |_, _, _| gate_enter(),
        exit: |op, addr, r, w| {
            if replay().trace {
                println!("TRACE t={} {:?} addr={:#x} read={:#x} written={:#x}", my_id(), op, addr, r, w);
            }
            gate_exit()
        },
    }));
}

pub fn set_my_id(id: i64) {
    MY_ID.with(|m| m.set(id));
}
pub fn my_id() -> i64 {
    MY_ID.try_with(|m| m.get()).unwrap_or(-1)
}
pub fn failed() -> bool {
    FAILED.load(SeqCst)
}

/// adversary mode (C08 replay): before every step of thread 1 a helper thread completes one full write
pub static ADV_BUDGET: AtomicUsize = AtomicUsize::new(0);
/// C09 replay: bit t set = thread t stays suspended for ever once its part of the schedule is used up
pub static FREEZE: AtomicUsize = AtomicUsize::new(0);
thread_local! {
    /// set when a conc-mode thread announces its own exit: it leaves without waiting for the others so
    /// that its thread-local destructors run (gated) as part of the schedule
    pub static EXIT_NOW: Cell<bool> = const { Cell::new(false) };
}
static ADV: Mutex<Option<(Sender<()>, std::sync::mpsc::Receiver<()>)>> = Mutex::new(None);

pub fn install_adversary(f: extern "C" fn(), budget: usize) {
    let (req_tx, req_rx) = channel::<()>();
    let (done_tx, done_rx) = channel::<()>();
    std::thread::spawn(move || {
        set_my_id(-1);
        while req_rx.recv().is_ok() {
            f();
            let _ = done_tx.send(());
        }
    });
    *ADV.lock().unwrap() = Some((req_tx, done_rx));
    ADV_BUDGET.store(budget, SeqCst);
}

/// Wait for this thread's turn in the schedule. All the gate's own atomics are Relaxed on purpose: they
/// order the steps in real time without adding happens-before edges between the threads, so a run under
/// Miri still sees exactly the synchronisation of the code under test.
pub fn gate_enter() {
    let id = my_id();
    if id < 0 {
        return;
    }
    let n = STEPS.fetch_add(1, Relaxed) + 1;
    let budget = ADV_BUDGET.load(Relaxed);
    if budget != 0 {
        if n > budget {
            println!("STEP-BUDGET-EXCEEDED steps={} budget={}", n, budget);
            std::process::exit(7);
        }
        let g = ADV.lock().unwrap();
        if let Some((tx, rx)) = g.as_ref() {
            tx.send(()).unwrap();
            rx.recv().unwrap();
        }
        return;
    }
    if FREE_RUN.load(Relaxed) {
        return;
    }
    let sched = &replay().schedule;
    let start = Instant::now();
    loop {
        let p = POS.load(Relaxed);
        if FREEZE.load(Relaxed) & (1 << id) != 0 && !sched[p.min(sched.len())..].contains(&id) {
            // frozen for good
            loop {
                std::thread::sleep(Duration::from_secs(3600));
            }
        }
        if p >= sched.len() {
            // schedule exhausted: the rest runs freely
            FREE_RUN.store(true, Relaxed);
            return;
        }
        if sched[p] == id {
            GATED.with(|g| g.set(true));
            return;
        }
        if start.elapsed() > Duration::from_secs(10) {
            println!("REPLAY-STUCK thread={} pos={} waiting-for={}", id, p, sched[p]);
            std::process::exit(4);
        }
        std::thread::yield_now();
    }
}

pub fn gate_exit() {
    let was = GATED.try_with(|g| g.replace(false)).unwrap_or(false);
    if was {
        POS.fetch_add(1, Relaxed);
    }
}

/// A thread of the replay finished: skip its remaining schedule entries (if the native run took
/// fewer steps than the model the replay has diverged; the caller notices via REPLAY-STUCK).
pub fn thread_done() {}

#[no_mangle]
pub extern "C" fn verif_nondet_u64(id: u32) -> u64 {
    let me = my_id();
    let mut g = replay().nondet.lock().unwrap();
    let q = g.entry(me).or_default();
    match q.pop_front() {
        Some((qid, v)) => {
            if qid != id {
                println!("REPLAY-DIVERGED nondet id expected {} got {}", qid, id);
                std::process::exit(4);
            }
            v
        }
        None => 0,
    }
}

#[no_mangle]
pub extern "C" fn verif_assume(c: bool) {
    if !c {
        println!("ASSUME-FAIL thread={}", my_id());
        std::process::exit(3);
    }
}

#[no_mangle]
pub extern "C" fn verif_assert(c: bool, id: u32) {
    if !c {
        FAILED.store(true, SeqCst);
        println!("ASSERT-FAIL id={} thread={}", id, my_id());
    }
}

#[no_mangle]
pub extern "C" fn verif_cover(id: u32) {
    println!("COVER id={} thread={}", id, my_id());
}

#[no_mangle]
pub extern "C" fn verif_mark(id: u32, v: u64) {
    println!("MARK id={} v={} thread={}", id, v, my_id());
}

#[no_mangle]
pub extern "C" fn verif_set_thread(_t: u32) {}
#[no_mangle]
pub extern "C" fn verif_thread_zombie(_t: u32) {}
#[no_mangle]
pub extern "C" fn verif_thread_gone(_t: u32) {}

#[no_mangle]
pub extern "C" fn verif_merge() {}

#[no_mangle]
pub extern "C" fn verif_set_generation(v: u64) {
    #[cfg(arc_swap_verif)]
    arc_swap::verif_hooks::set_generation(v as usize);
    #[cfg(not(arc_swap_verif))]
    {
        let _ = v;
        println!("NO-HOOKS set_generation unavailable");
        std::process::exit(5);
    }
}

#[no_mangle]
pub extern "C-unwind" fn verif_user_panic(id: u32) {
    println!("USER-PANIC id={} thread={}", id, my_id());
    std::panic::panic_any(UserPanic(id));
}
pub struct UserPanic(pub u32);

// ---- worker threads for sequential multi-thread histories ------------------------------------

type Job = Box<dyn FnOnce() + Send>;

/// closures to run when the worker thread's thread-locals are being torn down. The worker touches this
/// thread-local before anything else, so its destructor runs AFTER those of the crate's thread-locals
/// (registered later): the closures see the crate's TLS already destroyed.
struct Late(std::cell::RefCell<Vec<Job>>);
impl Drop for Late {
    fn drop(&mut self) {
        for j in self.0.borrow_mut().drain(..) {
            j();
        }
    }
}
thread_local! {
    static LATE: Late = Late(std::cell::RefCell::new(Vec::new()));
}

pub fn on_dying_thread<F: FnOnce() + Send>(t: u32, f: F) {
    let (dtx, drx) = channel::<std::thread::Result<()>>();
    let late: Box<dyn FnOnce() + Send + '_> = Box::new(move || {
        let r = std::panic::catch_unwind(std::panic::AssertUnwindSafe(f));
        let _ = dtx.send(r);
    });
    let late: Job = unsafe { std::mem::transmute(late) };
    on_thread(t, move || LATE.with(|l| l.0.borrow_mut().push(late)));
    verif_thread_exit(t);
    if let Ok(Err(p)) = drx.recv() {
        std::panic::resume_unwind(p);
    }
}
static WORKERS: Mutex<Option<HashMap<u32, (Sender<Job>, std::thread::JoinHandle<()>)>>> = Mutex::new(None);

pub fn on_thread<R: Send, F: FnOnce() -> R + Send>(t: u32, f: F) -> R {
    if t == 0 && my_id() == 0 {
        return f();
    }
    let (rtx, rrx) = channel::<std::thread::Result<R>>();
    {
        // erase lifetimes: we block until the job is done, so borrows stay valid
        let job: Box<dyn FnOnce() + Send + '_> = Box::new(move || {
            let r = std::panic::catch_unwind(std::panic::AssertUnwindSafe(f));
            let _ = rtx.send(r);
        });
        let job: Job = unsafe { std::mem::transmute(job) };
        let mut g = WORKERS.lock().unwrap();
        let map = g.get_or_insert_with(HashMap::new);
        let entry = map.entry(t).or_insert_with(|| {
            let (tx, rx) = channel::<Job>();
            let h = std::thread::spawn(move || {
                LATE.with(|_| ());
                set_my_id(0); // same nondet stream as the driver in sequential mode
                while let Ok(job) = rx.recv() {
                    job();
                }
            });
            (tx, h)
        });
        entry.0.send(job).unwrap();
    }
    match rrx.recv().unwrap() {
        Ok(r) => r,
        Err(p) => std::panic::resume_unwind(p),
    }
}

#[no_mangle]
pub extern "C" fn verif_thread_exit(t: u32) {
    if my_id() == t as i64 && my_id() > 0 {
        EXIT_NOW.with(|e| e.set(true));
        return;
    }
    let w = WORKERS.lock().unwrap().as_mut().and_then(|m| m.remove(&t));
    if let Some((tx, h)) = w {
        drop(tx);
        let _ = h.join();
    }
}

pub fn shutdown_workers() {
    let ws: Vec<u32> = WORKERS.lock().unwrap().as_ref().map(|m| m.keys().copied().collect()).unwrap_or_default();
    for t in ws {
        verif_thread_exit(t);
    }
}

#[no_mangle]
pub extern "C" fn verif_slots_all_empty() -> bool {
    #[cfg(arc_swap_verif)]
    {
        const NONE: usize = 0b11;
        arc_swap::verif_hooks::node_snapshot()
            .iter()
            .all(|n| n.fast.iter().all(|s| *s == NONE) && n.helping == NONE)
    }
    #[cfg(not(arc_swap_verif))]
    {
        println!("NO-HOOKS node_snapshot unavailable");
        std::process::exit(5);
    }
}

#[no_mangle]
pub extern "C" fn verif_try(f: extern "C-unwind" fn()) -> bool {
    std::panic::catch_unwind(|| f()).is_err()
}

#[no_mangle]
pub extern "C" fn verif_node_count() -> u64 {
    #[cfg(arc_swap_verif)]
    {
        arc_swap::verif_hooks::node_snapshot().len() as u64
    }
    #[cfg(not(arc_swap_verif))]
    {
        println!("NO-HOOKS node_snapshot unavailable");
        std::process::exit(5);
    }
}
