//! The verification runtime interface.
//!
//! IR build (default features): the `verif_*` functions are external symbols which the symbolic
//! executor models (irsym/models.py). Native build (`--features native`): they are implemented in
//! `native.rs` and drive a replay of a solver-found input/schedule against the real crate.
use core::sync::atomic::{AtomicUsize, Ordering};

extern "C" {
    pub fn verif_nondet_u64(id: u32) -> u64;
    pub fn verif_assume(c: bool);
    pub fn verif_assert(c: bool, id: u32);
    pub fn verif_cover(id: u32);
    pub fn verif_mark(id: u32, v: u64);
    pub fn verif_set_thread(t: u32);
    pub fn verif_thread_exit(t: u32);
    /// Preset the calling (simulated) thread's helping-generation counter. In the IR build the
    /// engine writes the TLS cell (located by calibration); natively it calls the cfg-guarded hook.
    pub fn verif_set_generation(v: u64);
    /// Join point for the symbolic execution: paths that reach the same call are merged into one
    /// state (values become if-then-else terms over the path conditions). No-op natively.
    pub fn verif_merge();
}
extern "C-unwind" {
    /// A panic raised by *user* code (closure, Drop, Clone supplied by the harness).
    pub fn verif_user_panic(id: u32);
}

#[inline(always)]
pub fn nondet(id: u32) -> u64 {
    unsafe { verif_nondet_u64(id) }
}
#[inline(always)]
pub fn assume(c: bool) {
    unsafe { verif_assume(c) }
}
#[inline(always)]
pub fn vassert(c: bool, id: u32) {
    unsafe { verif_assert(c, id) }
}
#[inline(always)]
pub fn cover(id: u32) {
    unsafe { verif_cover(id) }
}
#[inline(always)]
pub fn mark(id: u32, v: u64) {
    unsafe { verif_mark(id, v) }
}
#[inline(always)]
pub fn merge() {
    unsafe { verif_merge() }
}
#[inline(always)]
pub fn set_generation(v: u64) {
    unsafe { verif_set_generation(v) }
}
#[inline(always)]
pub fn user_panic(id: u32) {
    unsafe { verif_user_panic(id) }
}

/// Run `f` on simulated thread `t` (sequential multi-thread histories). In the IR build this only
/// switches which thread-local instance the code sees; natively the closure is shipped to a real
/// worker thread `t` and the caller waits for it.
#[cfg(not(feature = "native"))]
#[inline(always)]
pub fn on_thread<R, F: FnOnce() -> R>(t: u32, f: F) -> R {
    unsafe { verif_set_thread(t) };
    let r = f();
    unsafe { verif_set_thread(0) };
    r
}
#[cfg(feature = "native")]
pub fn on_thread<R: Send, F: FnOnce() -> R + Send>(t: u32, f: F) -> R {
    crate::native::on_thread(t, f)
}

extern "C" {
    pub fn verif_thread_zombie(t: u32);
    pub fn verif_thread_gone(t: u32);
}

/// Simulated thread `t` shuts down: its thread-local destructors run and THEN `f` still runs on it
/// (what a destructor of another thread-local, or a late `atexit`-like hook, would do).
#[cfg(not(feature = "native"))]
#[inline(always)]
pub fn on_dying_thread<F: FnOnce()>(t: u32, f: F) {
    unsafe {
        verif_thread_zombie(t);
        verif_set_thread(t);
    }
    f();
    unsafe {
        verif_thread_gone(t);
        verif_set_thread(0);
    }
}
#[cfg(feature = "native")]
pub fn on_dying_thread<F: FnOnce() + Send>(t: u32, f: F) {
    crate::native::on_dying_thread(t, f)
}

/// The calling concurrent-mode thread `t` exits at this point (last statement of its body): its
/// thread-local destructors run as part of its own events.
#[inline(always)]
pub fn thread_exit_self(t: u32) {
    unsafe { verif_thread_exit(t) };
}

/// Simulated thread `t` exits: its thread-local destructors run.
#[inline(always)]
pub fn thread_exit(t: u32) {
    unsafe { verif_thread_exit(t) };
    #[cfg(not(feature = "native"))]
    unsafe {
        verif_set_thread(0)
    };
}

/// Atomic cell of the harness itself (counts of the instrumented pointer, flags). In the native
/// build every operation passes the same gate as the crate's atomics so that replayed schedules
/// cover them.
#[repr(transparent)]
pub struct HAtomic(AtomicUsize);

impl HAtomic {
    pub const fn new(v: usize) -> Self {
        HAtomic(AtomicUsize::new(v))
    }
    #[inline(always)]
    pub fn load(&self, o: Ordering) -> usize {
        #[cfg(feature = "native")]
        crate::native::gate_enter();
        let r = self.0.load(o);
        #[cfg(feature = "native")]
        crate::native::gate_exit();
        r
    }
    #[inline(always)]
    pub fn store(&self, v: usize, o: Ordering) {
        #[cfg(feature = "native")]
        crate::native::gate_enter();
        self.0.store(v, o);
        #[cfg(feature = "native")]
        crate::native::gate_exit();
    }
    #[inline(always)]
    pub fn fetch_add(&self, v: usize, o: Ordering) -> usize {
        #[cfg(feature = "native")]
        crate::native::gate_enter();
        let r = self.0.fetch_add(v, o);
        #[cfg(feature = "native")]
        crate::native::gate_exit();
        r
    }
    #[inline(always)]
    pub fn fetch_sub(&self, v: usize, o: Ordering) -> usize {
        #[cfg(feature = "native")]
        crate::native::gate_enter();
        let r = self.0.fetch_sub(v, o);
        #[cfg(feature = "native")]
        crate::native::gate_exit();
        r
    }
    /// Ungated write (harness bookkeeping that is not part of any schedule).
    #[inline(always)]
    pub fn store_ungated(&self, v: usize) {
        self.0.store(v, Ordering::Relaxed)
    }
    /// Ungated read for oracles evaluated at quiescent points.
    #[inline(always)]
    pub fn peek(&self) -> usize {
        self.0.load(Ordering::Relaxed)
    }
}

extern "C" {
    /// True iff every debt slot (8 fast + 1 helping) of every node in the global list is empty.
    /// IR build: the engine reads the node cells (found by calibration) as ordinary shared reads.
    /// Native build: walks the cfg-guarded `node_snapshot()`.
    pub fn verif_slots_all_empty() -> bool;
}
#[inline(always)]
pub fn slots_all_empty() -> bool {
    unsafe { verif_slots_all_empty() }
}

extern "C" {
    /// Run `f`, catching a panic that unwinds out of it. Returns true iff it panicked. IR build:
    /// the engine stops the unwinding at this frame; native build: `catch_unwind`.
    pub fn verif_try(f: extern "C-unwind" fn()) -> bool;
}
#[inline(always)]
pub fn try_(f: extern "C-unwind" fn()) -> bool {
    unsafe { verif_try(f) }
}
