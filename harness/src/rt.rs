//! The verification runtime interface. In the IR build these are external symbols that the
//! symbolic executor models; in the native build (`feature = "native"`) they are implemented by
//! `native.rs` for replay.
extern "C" {
    pub fn verif_nondet_u64(id: u32) -> u64;
    pub fn verif_assume(c: bool);
    pub fn verif_assert(c: bool, id: u32);
    pub fn verif_cover(id: u32);
    pub fn verif_mark(id: u32, v: u64);
    pub fn verif_set_thread(t: u32);
    pub fn verif_thread_exit(t: u32);
}

#[inline(always)]
pub fn nondet(id: u32) -> u64 {
    unsafe { verif_nondet_u64(id) }
}
#[inline(always)]
pub fn assume(c: bool) {
    unsafe { verif_assume(c) }
}
#[inline(always)]
pub fn vassert(c: bool, id: u32) {
    unsafe { verif_assert(c, id) }
}
#[inline(always)]
pub fn cover(id: u32) {
    unsafe { verif_cover(id) }
}
#[inline(always)]
pub fn mark(id: u32, v: u64) {
    unsafe { verif_mark(id, v) }
}
