//! Smallest concurrent scenario (engine smoke test) and a sequential real-Arc smoke test.
use crate::rt::*;
use crate::vptr::*;
use arc_swap::{ArcSwapAny, Guard};
use std::sync::Arc;

type AS = ArcSwapAny<VPtr>;

pub struct Ctx {
    pub a: Option<AS>,
}
pub static mut CTX: Ctx = Ctx { a: None };

#[allow(static_mut_refs)]
fn ctx() -> &'static mut Ctx {
    unsafe { &mut CTX }
}

#[no_mangle]
pub extern "C" fn basic_setup() {
    let v = VPtr::create(0, 10);
    ctx().a = Some(AS::new(v));
}

/// Prologue: the thread uses the crate once, so it owns a node (the precondition of C08).
#[no_mangle]
pub extern "C" fn basic_warm() {
    let a = ctx().a.as_ref().unwrap();
    drop(a.load());
}

#[no_mangle]
pub extern "C" fn basic_reader() {
    let a = ctx().a.as_ref().unwrap();
    let g = a.load();
    let p = g.read();
    vassert(p == 10 || p == 11, 1);
    drop(g);
}

#[no_mangle]
pub extern "C" fn basic_writer() {
    let a = ctx().a.as_ref().unwrap();
    let v = VPtr::create(1, 11);
    a.store(v);
}

#[no_mangle]
pub extern "C" fn seq_arc() {
    let a = arc_swap::ArcSwap::from_pointee(5u64);
    let g = a.load();
    vassert(**g == 5, 1);
    a.store(Arc::new(6));
    vassert(**g == 5, 2);
    let h = a.load_full();
    vassert(*h == 6, 3);
    vassert(Arc::strong_count(&h) == 2, 4);
    drop(g);
    let _ = Guard::into_inner(a.load());
}
