//! C09 in freeze mode (cb.py, `subject=`): the other threads of the scenario are suspended for ever at an
//! arbitrary gated atomic step (or have finished); the subject then runs these bodies alone and has to come to
//! an end. The subject bodies go through every writer-side operation of the API one after another, so that a
//! wait in any of them shows as a loop that does not terminate.
use crate::rt::*;
use crate::scn_conc::{CX_A, CX_B, CX_HELD2, CX_POOL};
use crate::vptr::*;

#[inline(always)]
fn a() -> &'static crate::scn_conc::AS {
    CX_A.get().as_ref().unwrap()
}
#[inline(always)]
fn b() -> &'static crate::scn_conc::AS {
    CX_B.get().as_ref().unwrap()
}
#[inline(always)]
fn pool(i: usize) -> &'static VPtr {
    CX_POOL[i].get().as_ref().unwrap()
}

/// every writer-side operation on A, a guard of the same thread held across all of them (needs cs_setup_pool)
#[no_mangle]
pub extern "C" fn c9_s_writer_ops() {
    let g = a().load();
    a().store(pool(1).clone());
    let prev = a().compare_and_swap(pool(1), pool(2).clone());
    drop(prev);
    let prev = a().compare_and_swap(pool(0), pool(3).clone()); // does not match any more
    drop(prev);
    let old = a().rcu(|v| pool((v.idx() + 1) % POOL).clone());
    drop(old);
    let old = a().swap(pool(0).clone());
    drop(old);
    let full = a().load_full();
    drop(full);
    drop(g);
    cover(13);
}
/// the container is consumed / dropped by the subject (needs cs_setup_pool2: A and B)
#[no_mangle]
pub extern "C" fn c9_s_consume() {
    // moved out bitwise: the (frozen) other threads may still evaluate `a()` natively before they reach their gate
    let c = unsafe { core::ptr::read(a()) };
    let v = c.into_inner();
    drop(v);
    let c = unsafe { core::ptr::read(b()) };
    drop(c);
    cover(13);
}
/// prologue of the subject: it already holds 8 guards of B (its own loads take the fallback path)
#[no_mangle]
pub extern "C" fn c9_fill8_t2() {
    for i in 0..8 {
        *CX_HELD2[i].mu() = Some(b().load());
    }
}
/// the subject gives back guards it has been holding while the others are frozen, then writes
#[no_mangle]
pub extern "C" fn c9_s_release_then_store() {
    for i in 0..8 {
        let g = CX_HELD2[i].mu().take();
        drop(g);
    }
    let g = a().load();
    drop(g);
    b().store(pool(1).clone());
    a().store(pool(2).clone());
    cover(13);
}
/// a frozen writer of B (so that the subject meets a writer inside a node / inside the hand-over)
#[no_mangle]
pub extern "C" fn c9_w_store_b1() {
    b().store(pool(1).clone());
}
/// a frozen reader doing two loads (fast path, then again) and keeping the first guard
#[no_mangle]
pub extern "C" fn c9_r_load2() {
    let g1 = a().load();
    let g2 = a().load();
    vassert(g1.read() >= 10 && g2.read() >= 10, 1);
    drop(g2);
    drop(g1);
}
