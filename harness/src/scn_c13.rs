//! C13: totality, in particular around the wrap of the per-thread helping generation counter.
use crate::rt::*;
use arc_swap::ArcSwap;
use std::sync::Arc;

/// Calibration: lets the engine find the TLS cell that advances by 4 per fallback load.
#[no_mangle]
pub extern "C" fn calib_gen() {
    let a = ArcSwap::from_pointee(1u64);
    let gs = [a.load(), a.load(), a.load(), a.load(), a.load(), a.load(), a.load(), a.load()];
    mark(900, 0);
    let g = a.load();
    mark(901, 0);
    drop(g);
    drop(gs);
}

/// One thread, real `Arc`: 8 guards held (fast slots full), generation preset to ANY multiple of
/// 4 (symbolic), then fallback loads across the wrap.
#[no_mangle]
pub extern "C" fn c13_wrap_seq() {
    let a = ArcSwap::from_pointee(7u64);
    let gs = [a.load(), a.load(), a.load(), a.load(), a.load(), a.load(), a.load(), a.load()];
    let g0 = nondet(1);
    assume(g0 % 4 == 0);
    set_generation(g0);
    let g9 = a.load();
    vassert(**g9 == 7, 1);
    let g10 = a.load();
    vassert(**g10 == 7, 2);
    a.store(Arc::new(8));
    let g11 = a.load();
    vassert(**g11 == 8, 3);
    vassert(**g9 == 7, 4);
    // the eight guards created before the wrap still denote the old value (the container no longer owns it)
    let mut i = 0;
    while i < 8 {
        vassert(**gs[i] == 7, 7);
        i += 1;
    }
    drop(g9);
    drop(g10);
    drop(gs);
    drop(g11);
    let f = a.load_full();
    vassert(*f == 8, 5);
    vassert(Arc::strong_count(&f) == 2, 6);
    cover(1);
}

/// The wrap when the thread does NOT get its own node back: thread 2 used the crate after thread 1 and exited
/// (its node sits earlier in the list and is free), so at the wrap thread 1 continues on that node while its
/// eight guards still live in the slots of the retired one. "After such a wrap-around all other guarantees
/// continue to hold": a later store (by the same thread or by a third one) must honour those guards, every
/// guard still denotes the value it was created for, and everything is given back in the end.
#[no_mangle]
pub extern "C" fn c13_wrap_moved() {
    let a = ArcSwap::from_pointee(7u64);
    let first = Arc::as_ptr(&a.load_full()) as usize;
    let who = nondet(2);
    assume(who < 2);
    let mut gs: [Option<arc_swap::Guard<Arc<u64>>>; 8] = [None, None, None, None, None, None, None, None];
    on_thread(1, || drop(a.load()));
    on_thread(2, || drop(a.load()));
    thread_exit(2);
    let g0 = nondet(1);
    assume(g0 % 4 == 0);
    on_thread(1, || {
        let mut i = 0;
        while i < 8 {
            gs[i] = Some(a.load());
            i += 1;
        }
        set_generation(g0);
        let g9 = a.load();
        vassert(**g9 == 7, 1);
        let g10 = a.load();
        vassert(**g10 == 7, 2);
        drop(g9);
        drop(g10);
    });
    // the value is replaced: by the thread that wrapped, or by another one
    if who == 0 {
        on_thread(1, || a.store(Arc::new(8)));
    } else {
        on_thread(3, || a.store(Arc::new(8)));
    }
    on_thread(1, || {
        let mut i = 0;
        while i < 8 {
            let g = gs[i].take().unwrap();
            vassert(**g == 7 && Arc::as_ptr(&g) as usize == first, 3);
            drop(g);
            i += 1;
        }
        let g = a.load();
        vassert(**g == 8, 4);
    });
    vassert(slots_all_empty(), 5);
    let f = a.into_inner();
    vassert(*f == 8 && Arc::strong_count(&f) == 1, 6);
    cover(1);
}

/// Calibration: a freshly used node; the engine finds the debt-slot cells (those holding NONE).
#[no_mangle]
pub extern "C" fn calib_node() {
    let a = ArcSwap::from_pointee(1u64);
    drop(a.load());
    mark(902, 0);
}
