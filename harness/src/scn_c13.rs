//! C13: totality, in particular around the wrap of the per-thread helping generation counter.
use crate::rt::*;
use arc_swap::ArcSwap;
use std::sync::Arc;

/// Calibration: lets the engine find the TLS cell that advances by 4 per fallback load.
#[no_mangle]
pub extern "C" fn calib_gen() {
    let a = ArcSwap::from_pointee(1u64);
    let gs = [a.load(), a.load(), a.load(), a.load(), a.load(), a.load(), a.load(), a.load()];
    mark(900, 0);
    let g = a.load();
    mark(901, 0);
    drop(g);
    drop(gs);
}

/// One thread, real `Arc`: 8 guards held (fast slots full), generation preset to ANY multiple of
/// 4 (symbolic), then fallback loads across the wrap.
#[no_mangle]
pub extern "C" fn c13_wrap_seq() {
    let a = ArcSwap::from_pointee(7u64);
    let gs = [a.load(), a.load(), a.load(), a.load(), a.load(), a.load(), a.load(), a.load()];
    let g0 = nondet(1);
    assume(g0 % 4 == 0);
    set_generation(g0);
    let g9 = a.load();
    vassert(**g9 == 7, 1);
    let g10 = a.load();
    vassert(**g10 == 7, 2);
    a.store(Arc::new(8));
    let g11 = a.load();
    vassert(**g11 == 8, 3);
    vassert(**g9 == 7, 4);
    drop(g9);
    drop(g10);
    drop(gs);
    drop(g11);
    let f = a.load_full();
    vassert(*f == 8, 5);
    vassert(Arc::strong_count(&f) == 2, 6);
    cover(1);
}

/// Calibration: a freshly used node; the engine finds the debt-slot cells (those holding NONE).
#[no_mangle]
pub extern "C" fn calib_node() {
    let a = ArcSwap::from_pointee(1u64);
    drop(a.load());
    mark(902, 0);
}
