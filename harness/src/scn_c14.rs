//! C14: every strategy implements the sequential specification of "a plain variable holding the
//! pointer", counts included. A symbolic program of `STEPS` operations is run against the real
//! container and a reference model side by side.
use crate::rt::*;
use arc_swap::strategy::{CaS, Strategy};
use arc_swap::{ArcSwapAny, DefaultStrategy, Guard};
use std::sync::Arc;

type V = Arc<u64>;
const NG: usize = 2;

#[inline(always)]
fn idx_of(pool: &[V; 3], p: &V) -> usize {
    let mut r = 3;
    for (i, q) in pool.iter().enumerate() {
        if Arc::ptr_eq(p, q) {
            r = i;
        }
    }
    r
}

#[inline(always)]
fn run<S: Strategy<V> + CaS<V> + Default>(steps: u32, base: u32) {
    let pool: [V; 3] = [Arc::new(100), Arc::new(101), Arc::new(102)];
    let c: ArcSwapAny<V, S> = ArcSwapAny::new(pool[0].clone());
    let mut cur = 0usize; // reference model: index of the stored value
    let mut guards: [Option<Guard<V, S>>; NG] = [None, None];
    let mut gmodel = [0usize; NG];
    let mut owned: [Option<V>; NG] = [None, None]; // full handles kept by the program
    let mut step = 0;
    while step < steps {
        let op = nondet(base + step * 4);
        let j = nondet(base + step * 4 + 1) as usize;
        let k = nondet(base + step * 4 + 2) as usize;
        let x = nondet(base + step * 4 + 3) as usize;
        assume(op < 8 && j < NG && k < 3 && x < 3);
        match op {
            0 => {
                // load, keep the guard in slot j (dropping what was there)
                guards[j] = None;
                let g = c.load();
                vassert(idx_of(&pool, &g) == cur, 1);
                guards[j] = Some(g);
                gmodel[j] = cur;
            }
            1 => {
                let v = c.load_full();
                vassert(idx_of(&pool, &v) == cur, 2);
                owned[j] = Some(v);
            }
            2 => {
                guards[j] = None;
            }
            3 => {
                c.store(pool[k].clone());
                cur = k;
            }
            4 => {
                let old = c.swap(pool[k].clone());
                vassert(idx_of(&pool, &old) == cur, 3);
                cur = k;
            }
            5 => {
                // compare_and_swap, current given as a borrowed pointer
                let prev = c.compare_and_swap(&pool[x], pool[k].clone());
                vassert(idx_of(&pool, &prev) == cur, 4);
                if x == cur {
                    cur = k;
                }
            }
            6 => {
                // rcu: rotate to the next pool value
                let prev = c.rcu(|v| {
                    let i = idx_of(&pool, v);
                    pool[if i >= 2 { 0 } else { i + 1 }].clone()
                });
                vassert(idx_of(&pool, &prev) == cur, 5);
                cur = if cur == 2 { 0 } else { cur + 1 };
            }
            _ => {
                // promote a fresh guard to a full handle, and turn a full handle into a guard
                let v = Guard::into_inner(c.load());
                vassert(idx_of(&pool, &v) == cur, 6);
                let g = Guard::<V, S>::from_inner(v);
                guards[j] = Some(g);
                gmodel[j] = cur;
            }
        }
        // every held guard still denotes what it denoted when it was created
        for (g, m) in guards.iter().zip(gmodel.iter()) {
            if let Some(g) = g {
                vassert(idx_of(&pool, g) == *m, 7);
            }
        }
        step += 1;
    }
    cover(1);
    // release everything the program holds; take the value out
    for g in guards.iter_mut() {
        *g = None;
    }
    for o in owned.iter_mut() {
        *o = None;
    }
    let last = c.into_inner();
    vassert(idx_of(&pool, &last) == cur, 8);
    drop(last);
    // only the pool's own references remain
    vassert(Arc::strong_count(&pool[0]) == 1, 10);
    vassert(Arc::strong_count(&pool[1]) == 1, 11);
    vassert(Arc::strong_count(&pool[2]) == 1, 12);
    cover(2);
}

#[no_mangle]
pub extern "C" fn c14_default_2() {
    run::<DefaultStrategy>(2, 0);
}
#[no_mangle]
pub extern "C" fn c14_default_3() {
    run::<DefaultStrategy>(3, 0);
}
#[no_mangle]
pub extern "C" fn c14_default_4() {
    run::<DefaultStrategy>(4, 0);
}

#[cfg(feature = "test-strategies")]
#[allow(deprecated)]
use arc_swap::strategy::test_strategies::FillFastSlots;
#[cfg(feature = "test-strategies")]
use std::sync::RwLock;

#[cfg(feature = "test-strategies")]
#[no_mangle]
#[allow(deprecated)]
pub extern "C" fn c14_nofast_2() {
    run::<FillFastSlots>(2, 0);
}
#[cfg(feature = "test-strategies")]
#[no_mangle]
#[allow(deprecated)]
pub extern "C" fn c14_nofast_3() {
    run::<FillFastSlots>(3, 0);
}
#[cfg(feature = "test-strategies")]
#[no_mangle]
pub extern "C" fn c14_rwlock_2() {
    run::<RwLock<()>>(2, 0);
}
#[cfg(feature = "test-strategies")]
#[no_mangle]
pub extern "C" fn c14_rwlock_3() {
    run::<RwLock<()>>(3, 0);
}

/// C14/C02: the borrow-slot cursor wraps. A guard whose debt was paid by a write, k further loads (k symbolic
/// 0..9) so that a later guard may land in the very slot the first one used, then the first guard is
/// promoted/dropped and another write happens while the later guard is held. Counts must stay exact.
#[no_mangle]
pub extern "C" fn c14_cursor() {
    let pool: [V; 3] = [Arc::new(100), Arc::new(101), Arc::new(102)];
    let c: ArcSwapAny<V, DefaultStrategy> = ArcSwapAny::new(pool[0].clone());
    let g1 = c.load();
    c.store(pool[1].clone()); // pays g1's debt: g1 owns a reference now, its slot is free again
    let k = nondet(1);
    assume(k <= 9);
    let mut i = 0;
    while i < k {
        drop(c.load());
        i += 1;
    }
    let g2 = c.load();
    vassert(idx_of(&pool, &g2) == 1, 1);
    let how = nondet(2);
    assume(how < 2);
    if how == 0 {
        let v = Guard::into_inner(g1);
        vassert(idx_of(&pool, &v) == 0, 2);
        drop(v);
    } else {
        vassert(idx_of(&pool, &g1) == 0, 3);
        drop(g1);
    }
    c.store(pool[2].clone()); // g2's debt must still be there to be paid
    vassert(idx_of(&pool, &g2) == 1, 4);
    vassert(Arc::strong_count(&pool[1]) == 2, 5); // pool + g2
    drop(g2);
    drop(c);
    vassert(Arc::strong_count(&pool[0]) == 1, 10);
    vassert(Arc::strong_count(&pool[1]) == 1, 11);
    vassert(Arc::strong_count(&pool[2]) == 1, 12);
    cover(1);
}
