//! C14 on an `Option` container: `None` (the null pointer) is a value like any other for every strategy.
//! Same driver as scn_c14.rs with a pool of two values plus `None`.
use crate::rt::*;
use arc_swap::strategy::{CaS, Strategy};
use arc_swap::{ArcSwapAny, DefaultStrategy, Guard};
use std::sync::Arc;

type O = Option<Arc<u64>>;
const NG: usize = 2;
const NONE: usize = 2;

#[inline(always)]
fn idx_of(pool: &[Arc<u64>; 2], p: &O) -> usize {
    match p {
        None => NONE,
        Some(a) => {
            let mut r = 9;
            for (i, q) in pool.iter().enumerate() {
                if Arc::ptr_eq(a, q) {
                    r = i;
                }
            }
            r
        }
    }
}
#[inline(always)]
fn val(pool: &[Arc<u64>; 2], k: usize) -> O {
    if k == NONE {
        None
    } else {
        Some(pool[k].clone())
    }
}

#[inline(always)]
fn run<S: Strategy<O> + CaS<O> + Default>(steps: u32) {
    let pool: [Arc<u64>; 2] = [Arc::new(100), Arc::new(101)];
    let c: ArcSwapAny<O, S> = ArcSwapAny::new(val(&pool, 0));
    let mut cur = 0usize;
    let mut guards: [Option<Guard<O, S>>; NG] = [None, None];
    let mut gmodel = [0usize; NG];
    let mut owned: [O; NG] = [None, None];
    let mut step = 0;
    while step < steps {
        let op = nondet(step * 4);
        let j = nondet(step * 4 + 1) as usize;
        let k = nondet(step * 4 + 2) as usize;
        let x = nondet(step * 4 + 3) as usize;
        assume(op < 7 && j < NG && k < 3 && x < 3);
        match op {
            0 => {
                guards[j] = None;
                let g = c.load();
                vassert(idx_of(&pool, &g) == cur, 1);
                guards[j] = Some(g);
                gmodel[j] = cur;
            }
            1 => {
                let v = c.load_full();
                vassert(idx_of(&pool, &v) == cur, 2);
                owned[j] = v;
            }
            2 => {
                guards[j] = None;
            }
            3 => {
                c.store(val(&pool, k));
                cur = k;
            }
            4 => {
                let old = c.swap(val(&pool, k));
                vassert(idx_of(&pool, &old) == cur, 3);
                cur = k;
            }
            5 => {
                // compare_and_swap with `current` as a borrowed Option (None = null) or as a raw pointer
                let curv = val(&pool, x);
                let prev = if j == 0 {
                    c.compare_and_swap(&curv, val(&pool, k))
                } else {
                    let raw: *const u64 = match &curv {
                        None => core::ptr::null(),
                        Some(a) => Arc::as_ptr(a),
                    };
                    c.compare_and_swap(raw, val(&pool, k))
                };
                vassert(idx_of(&pool, &prev) == cur, 4);
                if x == cur {
                    cur = k;
                }
            }
            _ => {
                // rcu: rotate 0 -> 1 -> None -> 0
                let prev = c.rcu(|v| {
                    let i = idx_of(&pool, v);
                    val(&pool, if i >= 2 { 0 } else { i + 1 })
                });
                vassert(idx_of(&pool, &prev) == cur, 5);
                cur = if cur == 2 { 0 } else { cur + 1 };
            }
        }
        for (g, m) in guards.iter().zip(gmodel.iter()) {
            if let Some(g) = g {
                vassert(idx_of(&pool, g) == *m, 7);
            }
        }
        step += 1;
    }
    cover(1);
    for g in guards.iter_mut() {
        *g = None;
    }
    for o in owned.iter_mut() {
        *o = None;
    }
    let last = c.into_inner();
    vassert(idx_of(&pool, &last) == cur, 8);
    drop(last);
    vassert(Arc::strong_count(&pool[0]) == 1, 10);
    vassert(Arc::strong_count(&pool[1]) == 1, 11);
    vassert(slots_all_empty(), 12);
    cover(2);
}

#[no_mangle]
pub extern "C" fn c14o_default_2() {
    run::<DefaultStrategy>(2);
}
#[no_mangle]
pub extern "C" fn c14o_default_3() {
    run::<DefaultStrategy>(3);
}
#[cfg(feature = "test-strategies")]
#[no_mangle]
#[allow(deprecated)]
pub extern "C" fn c14o_nofast_2() {
    run::<arc_swap::strategy::test_strategies::FillFastSlots>(2);
}
#[cfg(feature = "test-strategies")]
#[no_mangle]
pub extern "C" fn c14o_rwlock_2() {
    run::<std::sync::RwLock<()>>(2);
}
