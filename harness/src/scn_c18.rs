//! C18: user code panicking inside an operation leaves the container consistent.
//! Built with panic=unwind ('unw' flavour): the engine follows the unwinding edges, so the real
//! drop glue of guards, reservations and temporaries runs.
use crate::rt::*;
use arc_swap::access::{Access, Map};
use arc_swap::ArcSwap;
use std::cell::Cell;
use std::sync::Arc;

/// A pointee whose destructor panics when armed.
pub struct Bomb {
    pub id: u64,
    pub armed: Cell<bool>,
}
impl Drop for Bomb {
    fn drop(&mut self) {
        if self.armed.get() {
            user_panic(100 + self.id as u32);
        }
    }
}
unsafe impl Sync for Bomb {}

fn bomb(id: u64) -> Arc<Bomb> {
    Arc::new(Bomb { id, armed: Cell::new(false) })
}

pub struct S {
    c: Option<ArcSwap<Bomb>>,
    pool: [Option<Arc<Bomb>>; 4],
    arm: u64,
    attempts: u64,
}
const NB: Option<Arc<Bomb>> = None;
static mut ST: S = S { c: None, pool: [NB; 4], arm: 0, attempts: 0 };
#[allow(static_mut_refs)]
fn st() -> &'static mut S {
    unsafe { &mut ST }
}
fn c() -> &'static ArcSwap<Bomb> {
    st().c.as_ref().unwrap()
}
fn pool(i: usize) -> &'static Arc<Bomb> {
    st().pool[i].as_ref().unwrap()
}

fn setup() {
    for i in 0..4 {
        st().pool[i] = Some(bomb(i as u64));
    }
    st().c = Some(ArcSwap::new(pool(0).clone()));
    st().attempts = 0;
}

/// after the dust settles: every pool value has exactly its pool reference plus the container's
fn check_quiescent(stored: usize, base: u32) {
    vassert(slots_all_empty(), base);
    let now = c().load_full();
    vassert(Arc::ptr_eq(&now, pool(stored)), base + 1);
    drop(now);
    for i in 0..4 {
        vassert(Arc::strong_count(pool(i)) == 1 + (i == stored) as usize, base + 2 + i as u32);
    }
    // operations keep working, also from another thread
    on_thread(2, || {
        let old = c().swap(pool(3).clone());
        vassert(Arc::ptr_eq(&old, pool(stored)), base + 6);
        drop(old);
        let prev = c().rcu(|_| pool(stored).clone());
        vassert(Arc::ptr_eq(&prev, pool(3)), base + 7);
    });
    vassert(slots_all_empty(), base + 8);
}

// ---- rcu closure panics on the first or on the second attempt (retry forced by a re-entrant store)

extern "C-unwind" fn body_rcu() {
    let g = c().load(); // a guard held across the whole thing
    let r = c().rcu(|v| {
        st().attempts += 1;
        let n = st().attempts;
        if st().arm == n {
            user_panic(n as u32);
        }
        if n == 1 {
            // contention from inside the closure: forces a second attempt
            c().store(pool(1).clone());
        }
        let _ = v;
        pool(2).clone()
    });
    drop(r);
    drop(g);
}

#[no_mangle]
pub extern "C" fn c18_rcu() {
    setup();
    let arm = nondet(1);
    assume(arm <= 3);
    st().arm = arm; // 0 or 3: no panic at all
    let panicked = try_(body_rcu);
    vassert(panicked == (arm == 1 || arm == 2), 1);
    // arm==1: nothing changed. arm==2: the re-entrant store happened, the update did not.
    let stored = if arm == 1 { 0 } else if arm == 2 { 1 } else { 2 };
    check_quiescent(stored, 10);
    cover(1);
}

// ---- rcu loses an attempt to a (re-entrant) writer; the value it still holds through its stale guard is
// ---- destroyed when it lets go of that guard before retrying, and that destructor panics

extern "C-unwind" fn body_rcu_drop() {
    let fresh = bomb(9);
    c().store(fresh.clone());
    drop(fresh); // the container is the only owner of bomb 9
    let r = c().rcu(|v| {
        st().attempts += 1;
        if st().attempts == 1 {
            if st().arm == 1 {
                v.armed.set(true);
            }
            // a writer gets in between: pays rcu's debt on bomb 9, so rcu's stale guard is its last owner
            c().store(pool(1).clone());
        }
        pool(2).clone()
    });
    drop(r);
}

#[no_mangle]
pub extern "C" fn c18_rcu_drop() {
    setup();
    let arm = nondet(1);
    assume(arm <= 1);
    st().arm = arm;
    let panicked = try_(body_rcu_drop);
    vassert(panicked == (arm == 1), 1);
    // arm==1: the first attempt was lost (container holds pool 1), the panic came before the retry
    check_quiescent(if arm == 1 { 1 } else { 2 }, 10);
    cover(1);
}

// ---- the destructor of the replaced value panics inside store()

extern "C-unwind" fn body_store_drop() {
    let g = c().load();
    drop(g);
    let fresh = bomb(9);
    c().store(fresh.clone()); // container: fresh (count 2)
    drop(fresh); // container holds the last reference
    if st().arm == 1 {
        c().load().armed.set(true);
    }
    c().store(pool(1).clone()); // drops `fresh` -> its destructor panics
}

#[no_mangle]
pub extern "C" fn c18_store_drop() {
    setup();
    let arm = nondet(1);
    assume(arm <= 1);
    st().arm = arm;
    let panicked = try_(body_store_drop);
    vassert(panicked == (arm == 1), 1);
    check_quiescent(1, 10);
    cover(1);
}

// ---- the destructor of the REJECTED new value panics inside compare_and_swap

extern "C-unwind" fn body_cas_reject() {
    let fresh = bomb(9);
    fresh.armed.set(st().arm == 1);
    // current = pool(1) is not what is stored (pool(0)): `fresh` is rejected and dropped inside
    let prev = c().compare_and_swap(pool(1), fresh);
    vassert(Arc::ptr_eq(&prev, pool(0)), 2);
    drop(prev);
}

#[no_mangle]
pub extern "C" fn c18_cas_reject() {
    setup();
    let arm = nondet(1);
    assume(arm <= 1);
    st().arm = arm;
    let panicked = try_(body_cas_reject);
    vassert(panicked == (arm == 1), 1);
    check_quiescent(0, 10);
    cover(1);
}

// ---- a projection panics inside Map::load

extern "C-unwind" fn body_map() {
    let m = Map::new(c(), |b: &Bomb| {
        if st().arm == 1 {
            user_panic(7);
        }
        &b.id
    });
    let g = Access::load(&m);
    vassert(*g == 0, 2);
    drop(g);
}

#[no_mangle]
pub extern "C" fn c18_map() {
    setup();
    let arm = nondet(1);
    assume(arm <= 1);
    st().arm = arm;
    let panicked = try_(body_map);
    vassert(panicked == (arm == 1), 1);
    check_quiescent(0, 10);
    cover(1);
}
