//! C18 under contention (context-bounded runs, panic=unwind flavour): the destructor of a value panics at the
//! moment its LAST reference is released - which, with another thread replacing the value at the wrong moment,
//! can be inside compare_and_swap / rcu / store / a guard drop of either thread. After the unwinding every count
//! is exact, no slot stays occupied and the container holds a value that was stored.
use crate::rt::*;
use crate::scn_conc::SCell;
use crate::vptr::{Obj, OBJS, POOL};
use arc_swap::{ArcSwapAny, RefCnt};
use core::sync::atomic::{fence, Ordering::*};

/// like `VPtr`, but destroying an armed object panics (user code panicking in Drop)
pub struct BPtr(*const Obj);
unsafe impl Send for BPtr {}
unsafe impl Sync for BPtr {}
pub static ARMED: [HAtomic; POOL] = [HAtomic::new(0), HAtomic::new(0), HAtomic::new(0), HAtomic::new(0)];
/// how many times each object was destroyed
pub static DESTROYED: [HAtomic; POOL] = [HAtomic::new(0), HAtomic::new(0), HAtomic::new(0), HAtomic::new(0)];

impl BPtr {
    pub fn create(i: usize) -> BPtr {
        let o = &OBJS[i];
        vassert(o.count.peek() == 0, 104);
        unsafe { *o.payload.get() = 10 + i as u64 };
        o.count.store_ungated(1);
        BPtr(o)
    }
    #[inline]
    pub fn idx(&self) -> usize {
        (self.0 as usize - OBJS.as_ptr() as usize) / core::mem::size_of::<Obj>()
    }
    #[inline]
    pub fn read(&self) -> u64 {
        let o = unsafe { &*self.0 };
        vassert(o.count.load(Relaxed) != 0, 103);
        unsafe { *o.payload.get() }
    }
}
impl Clone for BPtr {
    #[inline]
    fn clone(&self) -> BPtr {
        let prev = unsafe { &*self.0 }.count.fetch_add(1, Relaxed);
        vassert(prev != 0, 101);
        BPtr(self.0)
    }
}
impl Drop for BPtr {
    #[inline]
    fn drop(&mut self) {
        let prev = unsafe { &*self.0 }.count.fetch_sub(1, Release);
        vassert(prev != 0, 102);
        fence(Acquire);
        if prev == 1 {
            let i = self.idx();
            DESTROYED[i].store_ungated(DESTROYED[i].peek() + 1);
            if ARMED[i].peek() != 0 {
                user_panic(200 + i as u32);
            }
        }
    }
}
unsafe impl RefCnt for BPtr {
    type Base = Obj;
    fn into_ptr(me: BPtr) -> *mut Obj {
        let p = me.0 as *mut Obj;
        core::mem::forget(me);
        p
    }
    fn as_ptr(me: &BPtr) -> *mut Obj {
        me.0 as *mut Obj
    }
    unsafe fn from_ptr(ptr: *const Obj) -> BPtr {
        BPtr(ptr)
    }
}

pub type ASB = ArcSwapAny<BPtr>;
pub static PB_A: SCell<Option<ASB>> = SCell::new(None);
const NOB: SCell<Option<BPtr>> = SCell::new(None);
pub static PB_SPARE: [SCell<Option<BPtr>>; POOL] = [NOB; POOL];
const NOU: SCell<usize> = SCell::new(0);
/// per thread: did its body panic
pub static PB_PANICKED: [SCell<usize>; 4] = [NOU; 4];
/// what thread 1's operation returned (index + 1; 0 = nothing)
pub static PB_RES: [SCell<usize>; 4] = [NOU; 4];

#[inline(always)]
fn a() -> &'static ASB {
    PB_A.get().as_ref().unwrap()
}
#[inline(always)]
pub fn spare(i: usize) -> BPtr {
    PB_SPARE[i].mu().take().unwrap()
}

/// A = obj0 (the container is its only owner, its destructor is armed); obj1, obj2 spare
#[no_mangle]
pub extern "C" fn pb_setup() {
    *PB_A.mu() = Some(ASB::new(BPtr::create(0)));
    *PB_SPARE[1].mu() = Some(BPtr::create(1));
    *PB_SPARE[2].mu() = Some(BPtr::create(2));
    ARMED[0].store_ungated(1);
}
#[no_mangle]
pub extern "C" fn pb_warm() {
    drop(a().load());
}

extern "C-unwind" fn body_cas_raw() {
    // `current` as a raw pointer: nothing but the container (and the guards inside the call) keeps obj0 alive
    let cur = &OBJS[0] as *const Obj;
    let prev = a().compare_and_swap(cur, spare(2));
    *PB_RES[1].mu() = prev.idx() + 1;
    drop(prev);
}
/// T1: compare_and_swap(obj0 -> obj2) with a raw `current`
#[no_mangle]
pub extern "C" fn pb_t1_cas_raw() {
    *PB_PANICKED[1].mu() = try_(body_cas_raw) as usize;
}
extern "C-unwind" fn body_rcu() {
    let n = spare(2);
    let prev = a().rcu(|_| n.clone());
    *PB_RES[1].mu() = prev.idx() + 1;
    drop(prev);
    drop(n);
}
/// T1: rcu(_ -> obj2)
#[no_mangle]
pub extern "C" fn pb_t1_rcu() {
    *PB_PANICKED[1].mu() = try_(body_rcu) as usize;
}
extern "C-unwind" fn body_load_drop() {
    let g = a().load();
    let p = g.read();
    vassert(p == 10 || p == 11, 2);
    drop(g);
}
/// T1: load a guard and drop it (the drop may release the last reference)
#[no_mangle]
pub extern "C" fn pb_t1_load_drop() {
    *PB_PANICKED[1].mu() = try_(body_load_drop) as usize;
}
extern "C-unwind" fn body_swap1() {
    let old = a().swap(spare(1));
    *PB_RES[2].mu() = old.idx() + 1;
    drop(old);
}
/// T2: swap(obj1), drop what came out
#[no_mangle]
pub extern "C" fn pb_t2_swap1() {
    *PB_PANICKED[2].mu() = try_(body_swap1) as usize;
}

/// final: whoever released the last reference of obj0 panicked - exactly once, if at all; counts exact; slots empty;
/// the container works
#[no_mangle]
pub extern "C" fn pb_final() {
    vassert(slots_all_empty(), 40);
    let g = a().load();
    let f = g.idx();
    drop(g);
    vassert(slots_all_empty(), 42);
    let panics = *PB_PANICKED[1].get() + *PB_PANICKED[2].get();
    // obj0 is destroyed iff it is not stored any more, and then exactly once, with exactly one panic
    let d0 = DESTROYED[0].peek();
    vassert(d0 == (f != 0) as usize && panics == d0, 60);
    for i in 0..POOL {
        let want = (i == f) as usize + PB_SPARE[i].get().is_some() as usize;
        vassert(OBJS[i].count.peek() == want, 50 + i as u32);
        vassert(i == 0 || DESTROYED[i].peek() == (want == 0 && i < 3) as usize, 61);
    }
    // operations keep working
    ARMED[0].store_ungated(0);
    let old = a().swap(BPtr::create(3));
    vassert(old.idx() == f, 62);
    drop(old);
    if panics == 1 {
        cover(16);
    }
    cover(13);
}

