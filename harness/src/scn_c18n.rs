//! C18 under contention on the fallback-only strategy (helping path); see scn_c18c.rs.
#![cfg(feature = "test-strategies")]
#![allow(deprecated)]
use crate::rt::*;
use crate::scn_c18c::*;
use crate::scn_conc::SCell;
use crate::vptr::{OBJS, POOL};
use arc_swap::ArcSwapAny;
#[allow(deprecated)]
use arc_swap::strategy::test_strategies::FillFastSlots;
#[allow(deprecated)]
pub type ASBN = ArcSwapAny<BPtr, FillFastSlots>;
pub static PBN_A: SCell<Option<ASBN>> = SCell::new(None);
#[inline(always)]
fn a() -> &'static ASBN {
    PBN_A.get().as_ref().unwrap()
}
#[no_mangle]
pub extern "C" fn pbn_setup() {
    *PBN_A.mu() = Some(ASBN::new(BPtr::create(0)));
    *PB_SPARE[1].mu() = Some(BPtr::create(1));
    *PB_SPARE[2].mu() = Some(BPtr::create(2));
    ARMED[0].store_ungated(1);
}
#[no_mangle]
pub extern "C" fn pbn_warm() {
    drop(a().load());
}
extern "C-unwind" fn body_load_drop() {
    let g = a().load();
    let p = g.read();
    vassert(p == 10 || p == 11, 2);
    drop(g);
}
/// T1: a helping load (may be helped by the writer, may have to give up its candidate) and the guard's drop
#[no_mangle]
pub extern "C" fn pbn_t1_load_drop() {
    *PB_PANICKED[1].mu() = try_(body_load_drop) as usize;
}
extern "C-unwind" fn body_swap1() {
    let old = a().swap(spare(1));
    *PB_RES[2].mu() = old.idx() + 1;
    drop(old);
}
#[no_mangle]
pub extern "C" fn pbn_t2_swap1() {
    *PB_PANICKED[2].mu() = try_(body_swap1) as usize;
}
#[no_mangle]
pub extern "C" fn pbn_final() {
    vassert(slots_all_empty(), 40);
    let g = a().load();
    let f = g.idx();
    drop(g);
    vassert(slots_all_empty(), 42);
    let panics = *PB_PANICKED[1].get() + *PB_PANICKED[2].get();
    let d0 = DESTROYED[0].peek();
    vassert(d0 == (f != 0) as usize && panics == d0, 60);
    for i in 0..POOL {
        let want = (i == f) as usize + PB_SPARE[i].get().is_some() as usize;
        vassert(OBJS[i].count.peek() == want, 50 + i as u32);
    }
    ARMED[0].store_ungated(0);
    let old = a().swap(BPtr::create(3));
    vassert(old.idx() == f, 62);
    drop(old);
    if panics == 1 {
        cover(16);
    }
    cover(13);
}
