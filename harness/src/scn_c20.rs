//! C20: serde transparency. A token-recording serializer compares what the container emits with
//! what the stored pointer emits; a tiny deserializer checks the other direction.
#![cfg(feature = "serde")]
use crate::rt::*;
use arc_swap::{ArcSwap, ArcSwapAny, ArcSwapOption};
use serde::de::{self, Deserialize, Deserializer, Visitor};
use serde::ser::{self, Serialize, SerializeStruct, Serializer};
use std::fmt;
use std::sync::Arc;

// ---------------------------------------------------------------------------- recording serializer

#[derive(Debug)]
pub struct E;
impl fmt::Display for E {
    fn fmt(&self, _: &mut fmt::Formatter) -> fmt::Result {
        Ok(())
    }
}
impl std::error::Error for E {}
impl ser::Error for E {
    fn custom<T: fmt::Display>(_: T) -> Self {
        E
    }
}
impl de::Error for E {
    fn custom<T: fmt::Display>(_: T) -> Self {
        E
    }
}

pub struct Rec {
    pub toks: [(u8, u64); 12],
    pub n: usize,
}
impl Rec {
    fn new() -> Rec {
        Rec { toks: [(0, 0); 12], n: 0 }
    }
    fn push(&mut self, k: u8, v: u64) {
        if self.n < 12 {
            self.toks[self.n] = (k, v);
        }
        self.n += 1;
    }
    fn same(&self, o: &Rec) -> bool {
        let mut ok = self.n == o.n;
        for i in 0..12 {
            ok &= self.toks[i] == o.toks[i];
        }
        ok
    }
}

impl<'a> Serializer for &'a mut Rec {
    type Ok = ();
    type Error = E;
    type SerializeSeq = ser::Impossible<(), E>;
    type SerializeTuple = ser::Impossible<(), E>;
    type SerializeTupleStruct = ser::Impossible<(), E>;
    type SerializeTupleVariant = ser::Impossible<(), E>;
    type SerializeMap = ser::Impossible<(), E>;
    type SerializeStruct = Self;
    type SerializeStructVariant = ser::Impossible<(), E>;
    fn serialize_bool(self, v: bool) -> Result<(), E> {
        self.push(1, v as u64);
        Ok(())
    }
    fn serialize_u64(self, v: u64) -> Result<(), E> {
        self.push(2, v);
        Ok(())
    }
    fn serialize_none(self) -> Result<(), E> {
        self.push(3, 0);
        Ok(())
    }
    fn serialize_some<T: ?Sized + Serialize>(self, v: &T) -> Result<(), E> {
        self.push(4, 0);
        v.serialize(self)
    }
    fn serialize_unit(self) -> Result<(), E> {
        self.push(5, 0);
        Ok(())
    }
    fn serialize_str(self, v: &str) -> Result<(), E> {
        self.push(6, v.len() as u64);
        for b in v.bytes() {
            self.push(7, b as u64);
        }
        Ok(())
    }
    fn serialize_struct(self, _: &'static str, len: usize) -> Result<Self, E> {
        self.push(8, len as u64);
        Ok(self)
    }
    fn serialize_i8(self, _: i8) -> Result<(), E> { Err(E) }
    fn serialize_i16(self, _: i16) -> Result<(), E> { Err(E) }
    fn serialize_i32(self, _: i32) -> Result<(), E> { Err(E) }
    fn serialize_i64(self, _: i64) -> Result<(), E> { Err(E) }
    fn serialize_u8(self, _: u8) -> Result<(), E> { Err(E) }
    fn serialize_u16(self, _: u16) -> Result<(), E> { Err(E) }
    fn serialize_u32(self, _: u32) -> Result<(), E> { Err(E) }
    fn serialize_f32(self, _: f32) -> Result<(), E> { Err(E) }
    fn serialize_f64(self, _: f64) -> Result<(), E> { Err(E) }
    fn serialize_char(self, _: char) -> Result<(), E> { Err(E) }
    fn serialize_bytes(self, _: &[u8]) -> Result<(), E> { Err(E) }
    fn serialize_unit_struct(self, _: &'static str) -> Result<(), E> { Err(E) }
    fn serialize_unit_variant(self, _: &'static str, _: u32, _: &'static str) -> Result<(), E> { Err(E) }
    fn serialize_newtype_struct<T: ?Sized + Serialize>(self, _: &'static str, _: &T) -> Result<(), E> { Err(E) }
    fn serialize_newtype_variant<T: ?Sized + Serialize>(self, _: &'static str, _: u32, _: &'static str, _: &T) -> Result<(), E> { Err(E) }
    fn serialize_seq(self, _: Option<usize>) -> Result<Self::SerializeSeq, E> { Err(E) }
    fn serialize_tuple(self, _: usize) -> Result<Self::SerializeTuple, E> { Err(E) }
    fn serialize_tuple_struct(self, _: &'static str, _: usize) -> Result<Self::SerializeTupleStruct, E> { Err(E) }
    fn serialize_tuple_variant(self, _: &'static str, _: u32, _: &'static str, _: usize) -> Result<Self::SerializeTupleVariant, E> { Err(E) }
    fn serialize_map(self, _: Option<usize>) -> Result<Self::SerializeMap, E> { Err(E) }
    fn serialize_struct_variant(self, _: &'static str, _: u32, _: &'static str, _: usize) -> Result<Self::SerializeStructVariant, E> { Err(E) }
}
impl<'a> SerializeStruct for &'a mut Rec {
    type Ok = ();
    type Error = E;
    fn serialize_field<T: ?Sized + Serialize>(&mut self, _: &'static str, v: &T) -> Result<(), E> {
        self.push(9, 0);
        v.serialize(&mut **self)
    }
    fn end(self) -> Result<(), E> {
        self.push(10, 0);
        Ok(())
    }
}

pub struct Pair {
    pub a: u64,
    pub b: bool,
}
impl Serialize for Pair {
    fn serialize<S: Serializer>(&self, s: S) -> Result<S::Ok, S::Error> {
        let mut st = s.serialize_struct("Pair", 2)?;
        st.serialize_field("a", &self.a)?;
        st.serialize_field("b", &self.b)?;
        st.end()
    }
}

/// container emits exactly what its current value emits (scalars, struct, Option incl. None)
#[no_mangle]
pub extern "C" fn c20_ser() {
    let x = nondet(1);
    let y = nondet(2);
    let flag = nondet(3) & 1 == 1;
    // scalar, after a store (the CURRENT value counts)
    let c = ArcSwap::from_pointee(x);
    c.store(Arc::new(y));
    let (mut r1, mut r2) = (Rec::new(), Rec::new());
    vassert(c.serialize(&mut r1).is_ok(), 1);
    vassert(Arc::new(y).serialize(&mut r2).is_ok(), 2);
    vassert(r1.same(&r2) && r1.n == 1, 3);
    // struct
    let c = ArcSwap::from_pointee(Pair { a: x, b: flag });
    let (mut r1, mut r2) = (Rec::new(), Rec::new());
    vassert(c.serialize(&mut r1).is_ok(), 4);
    vassert(Pair { a: x, b: flag }.serialize(&mut r2).is_ok(), 5);
    vassert(r1.same(&r2) && r1.n == 6, 6);
    // Option: Some / None
    let some = nondet(4) & 1 == 1;
    let v = if some { Some(Arc::new(x)) } else { None };
    let c = ArcSwapOption::new(v.clone());
    let (mut r1, mut r2) = (Rec::new(), Rec::new());
    vassert(c.serialize(&mut r1).is_ok(), 7);
    vassert(v.serialize(&mut r2).is_ok(), 8);
    vassert(r1.same(&r2), 9);
    vassert(r1.n == if some { 2 } else { 1 }, 10);
    // counts untouched by serialization
    if let Some(a) = &v {
        vassert(Arc::strong_count(a) == 2, 11);
    }
    cover(1);
}

// ---------------------------------------------------------------------------- tiny deserializer

pub struct Src {
    pub v: u64,
    pub none: bool,
}
impl<'de> Deserializer<'de> for Src {
    type Error = E;
    fn deserialize_any<V: Visitor<'de>>(self, vis: V) -> Result<V::Value, E> {
        vis.visit_u64(self.v)
    }
    fn deserialize_option<V: Visitor<'de>>(self, vis: V) -> Result<V::Value, E> {
        if self.none {
            vis.visit_none()
        } else {
            vis.visit_some(self)
        }
    }
    serde::forward_to_deserialize_any! {
        bool i8 i16 i32 i64 i128 u8 u16 u32 u64 u128 f32 f64 char str string bytes byte_buf unit
        unit_struct newtype_struct seq tuple tuple_struct map struct enum identifier ignored_any
    }
}

/// deserialize gives a container with exactly the deserialized value and a single reference;
/// round trip preserves the value (default and RwLock-free strategies share the code path)
#[no_mangle]
pub extern "C" fn c20_de() {
    let x = nondet(1);
    let none = nondet(2) & 1 == 1;
    let c = <ArcSwap<u64> as Deserialize>::deserialize(Src { v: x, none: false });
    match c {
        Ok(c) => {
            let v = c.load_full();
            vassert(*v == x, 1);
            vassert(Arc::strong_count(&v) == 2, 2);
            drop(v);
            // round trip
            let mut r = Rec::new();
            vassert(c.serialize(&mut r).is_ok() && r.n == 1 && r.toks[0] == (2, x), 3);
            let v = c.into_inner();
            vassert(Arc::strong_count(&v) == 1, 4);
        }
        Err(_) => vassert(false, 5),
    }
    let c = <ArcSwapOption<u64> as Deserialize>::deserialize(Src { v: x, none });
    match c {
        Ok(c) => {
            let v = c.load_full();
            vassert(v.is_none() == none, 6);
            if let Some(a) = &v {
                vassert(**a == x && Arc::strong_count(a) == 2, 7);
            }
        }
        Err(_) => vassert(false, 8),
    }
    // a container with an explicitly named strategy type
    let c = <ArcSwapAny<Arc<u64>, arc_swap::DefaultStrategy> as Deserialize>::deserialize(Src { v: x, none: false });
    vassert(matches!(c, Ok(ref c) if **c.load() == x), 9);
    cover(1);
}

// ---------------------------------------------------------------------------- concurrent: serialize || store

impl Serialize for crate::vptr::VPtr {
    fn serialize<S: Serializer>(&self, s: S) -> Result<S::Ok, S::Error> {
        // looking into the value checks that it is alive
        s.serialize_u64(self.read())
    }
}

/// thread 1 serializes the container while thread 2 replaces (and destroys) the value
#[no_mangle]
pub extern "C" fn c20_r_serialize() {
    let a = crate::scn_conc::CX_A.get().as_ref().unwrap();
    let mut r = Rec::new();
    let ok = a.serialize(&mut r).is_ok();
    merge();
    // what came out is the serialization of a value that was stored: obj0 (10) or obj1 (11)
    vassert(ok && r.n == 1 && (r.toks[0] == (2, 10) || r.toks[0] == (2, 11)), 70);
}
