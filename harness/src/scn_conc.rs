//! Concurrent scenarios over the instrumented pointer `VPtr` (C01-C06, C10, C12, C13).
//!
//! Conventions: pool object i has payload 10+i; `*_setup` runs on thread 0, `*_warm`/`*_fill8_*`
//! are per-thread prologues (sequential), bodies run concurrently, `*_final` runs after all
//! bodies on thread 0 and checks the quiescent accounting.
use crate::rt::*;
use crate::vptr::*;
use arc_swap::{ArcSwapAny, Guard};
use core::sync::atomic::Ordering::*;

pub type AS = ArcSwapAny<VPtr>;
pub type G = Guard<VPtr>;

/// A cell of harness state shared between the scenario functions. Every field lives in its own
/// cell (and arrays are arrays of cells) so that threads touching different fields never form
/// overlapping references: the harness itself is clean under Miri's data-race detector.
#[repr(transparent)]
pub struct SCell<T>(core::cell::UnsafeCell<T>);
unsafe impl<T> Sync for SCell<T> {}
impl<T> SCell<T> {
    pub const fn new(v: T) -> Self {
        SCell(core::cell::UnsafeCell::new(v))
    }
    /// shared view (the cell is not being written concurrently)
    #[inline(always)]
    pub fn get(&self) -> &T {
        unsafe { &*self.0.get() }
    }
    /// exclusive view (nobody else touches this cell right now)
    #[allow(clippy::mut_from_ref)]
    #[inline(always)]
    pub fn mu(&self) -> &mut T {
        unsafe { &mut *self.0.get() }
    }
}

const NOG: SCell<Option<G>> = SCell::new(None);
const NOV: SCell<Option<VPtr>> = SCell::new(None);
const NOR: SCell<usize> = SCell::new(9);
pub static CX_A: SCell<Option<AS>> = SCell::new(None);
pub static CX_B: SCell<Option<AS>> = SCell::new(None);
/// guards parked by the prologue of thread 1 / thread 2 (fills the 8 fast slots)
pub static CX_HELD1: [SCell<Option<G>>; 8] = [NOG; 8];
pub static CX_HELD2: [SCell<Option<G>>; 8] = [NOG; 8];
/// a guard handed from one thread to another
pub static CX_PARKED: SCell<Option<G>> = SCell::new(None);
/// handles owned by the harness at the end (by index of the pool object)
pub static CX_KEPT: [SCell<Option<VPtr>>; 4] = [NOV; 4];
/// values created by the setup (count 1 each) that writers will store: the concurrent phase
/// then modifies counts by atomic add/sub only
pub static CX_SPARE: [SCell<Option<VPtr>>; 4] = [NOV; 4];
/// permanent extra handles (one reference each) the bodies may clone from
pub static CX_POOL: [SCell<Option<VPtr>>; 4] = [NOV; 4];
/// results recorded by bodies for the final function
pub static CX_RES: [SCell<usize>; 4] = [NOR; 4];

/// progress flags of writers, for the real-time part of linearizability
pub static STARTED: HAtomic = HAtomic::new(0);
pub static DONE: HAtomic = HAtomic::new(0);

#[inline(always)]
fn a() -> &'static AS {
    CX_A.get().as_ref().unwrap()
}
#[inline(always)]
fn b() -> &'static AS {
    CX_B.get().as_ref().unwrap()
}

#[inline(always)]
fn check_payload(v: &VPtr, id: u32) -> usize {
    let i = v.idx();
    let p = v.read();
    vassert(i < POOL && p == 10 + i as u64, id);
    i
}

// ------------------------------------------------------------------ setup / prologues

/// A = obj0; obj1..obj3 are spare values for the writers
#[no_mangle]
pub extern "C" fn cs_setup1() {
    *CX_A.mu() = Some(AS::new(VPtr::create(0, 10)));
    for i in 1..POOL {
        *CX_SPARE[i].mu() = Some(VPtr::create(i, 10 + i as u64));
    }
}

/// A = obj0, B = obj2; obj1, obj3 spare
#[no_mangle]
pub extern "C" fn cs_setup2() {
    *CX_A.mu() = Some(AS::new(VPtr::create(0, 10)));
    *CX_B.mu() = Some(AS::new(VPtr::create(2, 12)));
    *CX_SPARE[1].mu() = Some(VPtr::create(1, 11));
    *CX_SPARE[3].mu() = Some(VPtr::create(3, 13));
}

#[inline(always)]
fn spare(i: usize) -> VPtr {
    CX_SPARE[i].mu().take().unwrap()
}

/// the thread has used the crate before (owns a node); all its slots are free again
#[no_mangle]
pub extern "C" fn cs_warm() {
    drop(a().load());
}

/// thread 1 holds 8 guards OF CONTAINER B (needs cs_setup2): its fast slots are full, further
/// loads take the fallback path. (Debts on B's value are never touched by writers of A, which
/// keeps the writer's slot walk free of forks.)
#[no_mangle]
pub extern "C" fn cs_fill8_t1() {
    for i in 0..8 {
        *CX_HELD1[i].mu() = Some(b().load());
    }
}
#[no_mangle]
pub extern "C" fn cs_fill8_t2() {
    for i in 0..8 {
        *CX_HELD2[i].mu() = Some(b().load());
    }
}
/// thread 1 holds 3 guards of A itself (their debts are paid by a concurrent writer of A)
#[no_mangle]
pub extern "C" fn cs_fill3a_t1() {
    for i in 0..3 {
        *CX_HELD1[i].mu() = Some(a().load());
    }
}

// ------------------------------------------------------------------ reader bodies

/// load, look through the guard, drop it
#[no_mangle]
pub extern "C" fn cs_r_load() {
    let g = a().load();
    merge();
    check_payload(&g, 1);
    cover(11);
    drop(g);
    merge();
}

/// load_full, look, drop
#[no_mangle]
pub extern "C" fn cs_r_load_full() {
    let v = a().load_full();
    merge();
    check_payload(&v, 2);
    drop(v);
    merge();
}

/// two loads by one thread never move backwards (writers store objects in increasing index
/// order) and obey real time w.r.t. the writer's progress flags
#[no_mangle]
pub extern "C" fn cs_r_load2() {
    let d0 = DONE.load(SeqCst);
    let g1 = a().load();
    merge();
    let s1 = STARTED.load(SeqCst);
    let i1 = check_payload(&g1, 3);
    vassert(i1 >= d0 && i1 <= s1, 4);
    merge();
    let d1 = DONE.load(SeqCst);
    let g2 = a().load();
    merge();
    let s2 = STARTED.load(SeqCst);
    let i2 = check_payload(&g2, 5);
    vassert(i2 >= i1, 6);
    vassert(i2 >= d1 && i2 <= s2, 7);
    // the first guard still denotes the same, live value
    vassert(check_payload(&g1, 8) == i1, 9);
    merge();
    drop(g1);
    merge();
    drop(g2);
    merge();
}

/// the same with the fallback path (prologue filled the fast slots): one load
#[no_mangle]
pub extern "C" fn cs_r_load_rt() {
    let d0 = DONE.load(SeqCst);
    let g1 = a().load();
    merge();
    let s1 = STARTED.load(SeqCst);
    let i1 = check_payload(&g1, 3);
    vassert(i1 >= d0 && i1 <= s1, 4);
    cover(12);
    merge();
    drop(g1);
    merge();
}

/// one load on the fallback path (the prologue parked 8 guards, which stay parked)
#[no_mangle]
pub extern "C" fn cs_r_fallback() {
    let g = a().load();
    merge();
    check_payload(&g, 1);
    cover(14);
    drop(g);
    merge();
}

/// guard promoted to a full handle that outlives everything
#[no_mangle]
pub extern "C" fn cs_r_into_inner_keep() {
    let g = a().load();
    merge();
    let v = Guard::into_inner(g);
    merge();
    check_payload(&v, 1);
    let i = v.idx();
    *CX_KEPT[i].mu() = Some(v);
}

// ------------------------------------------------------------------ writer bodies

/// store(obj1): the old value is dropped by the store
#[no_mangle]
pub extern "C" fn cs_w_store1() {
    let v = spare(1);
    STARTED.store(1, SeqCst);
    a().store(v);
    merge();
    DONE.store(1, SeqCst);
}

/// store(obj1); store(obj2)
#[no_mangle]
pub extern "C" fn cs_w_store12() {
    let v = spare(1);
    STARTED.store(1, SeqCst);
    a().store(v);
    merge();
    DONE.store(1, SeqCst);
    let v = spare(2);
    STARTED.store(2, SeqCst);
    a().store(v);
    merge();
    DONE.store(2, SeqCst);
}

/// swap(obj1): the returned previous value is a full, live handle
#[no_mangle]
pub extern "C" fn cs_w_swap1() {
    let v = spare(1);
    let old = a().swap(v);
    merge();
    check_payload(&old, 20);
    mark(1, old.idx() as u64);
    let i = old.idx();
    *CX_KEPT[i].mu() = Some(old);
}

/// swap(obj2) by a second writer
#[no_mangle]
pub extern "C" fn cs_w_swap2() {
    let v = spare(2);
    let old = a().swap(v);
    merge();
    check_payload(&old, 21);
    let i = old.idx();
    *CX_KEPT[i].mu() = Some(old);
}

/// store to the OTHER container B (walks every node, must not disturb readers of A)
#[no_mangle]
pub extern "C" fn cs_w_store_b3() {
    let v = spare(3);
    b().store(v);
    merge();
}

// ------------------------------------------------------------------ compare_and_swap / rcu / moved guards

/// A = obj0, and the harness keeps handles to every pool object (pool[i]) to clone from
#[no_mangle]
pub extern "C" fn cs_setup_pool() {
    for i in 0..POOL {
        *CX_POOL[i].mu() = Some(VPtr::create(i, 10 + i as u64));
    }
    *CX_A.mu() = Some(AS::new(CX_POOL[0].get().as_ref().unwrap().clone()));
}
/// the same plus a second container B = obj3
#[no_mangle]
pub extern "C" fn cs_setup_pool2() {
    cs_setup_pool();
    *CX_B.mu() = Some(AS::new(CX_POOL[3].get().as_ref().unwrap().clone()));
}
#[inline(always)]
fn pool(i: usize) -> &'static VPtr {
    CX_POOL[i].get().as_ref().unwrap()
}

/// T1: compare_and_swap(current = obj0, new = obj1)
#[no_mangle]
pub extern "C" fn cs_w_cas01() {
    let prev = a().compare_and_swap(pool(0), pool(1).clone());
    merge();
    let i = check_payload(&prev, 22);
    *CX_RES[0].mu() = i;
    drop(prev);
    merge();
}
/// T2: x = swap(obj2); store(obj0)   -- restores the very same object: A-B-A for the other thread
#[no_mangle]
pub extern "C" fn cs_w_swap2_store0() {
    let x = a().swap(pool(2).clone());
    merge();
    *CX_RES[1].mu() = check_payload(&x, 23);
    drop(x);
    merge();
    a().store(pool(0).clone());
    merge();
}
/// final for the pair above
#[no_mangle]
pub extern "C" fn cs_final_cas() {
    let g = a().load();
    merge();
    let f = check_payload(&g, 41);
    drop(g);
    merge();
    let prev = *CX_RES[0].get();
    let x = *CX_RES[1].get();
    let swapped = prev == 0;
    // T1 saw obj0 (success) or obj2 (failure), never anything else
    vassert(prev == 0 || prev == 2, 60);
    // success: obj1 went in exactly once: it is either what T2's swap took out, or still stored
    vassert(!swapped || (x == 1 && f == 0) || (x == 0 && f == 1), 61);
    // failure: nothing of T1 is visible
    vassert(swapped || (x == 0 && f == 0), 62);
    expect_counts(f, usize::MAX);
    vassert(slots_all_empty(), 42);
    cover(13);
}

/// three threads, one operation each: cas(obj0 -> obj1) || swap(obj2) || swap(obj0 again): the A-B-A
/// interleavings are among the schedules. Every value put in must come out exactly once.
#[no_mangle]
pub extern "C" fn cs_w_swap_pool2_rec() {
    let x = a().swap(pool(2).clone());
    merge();
    *CX_RES[1].mu() = check_payload(&x, 23);
    drop(x);
    merge();
}
#[no_mangle]
pub extern "C" fn cs_w_swap_pool0_rec() {
    let x = a().swap(pool(0).clone());
    merge();
    *CX_RES[2].mu() = check_payload(&x, 23);
    drop(x);
    merge();
}
#[no_mangle]
pub extern "C" fn cs_final_cas3() {
    let g = a().load();
    merge();
    let f = check_payload(&g, 41);
    drop(g);
    merge();
    let (p, x2, x3) = (*CX_RES[0].get(), *CX_RES[1].get(), *CX_RES[2].get());
    let swapped = p == 0;
    vassert(p == 0 || p == 2, 60);
    // put in: obj0 twice (initially and by the third thread), obj2 once, obj1 iff the cas claims success
    let inn = [2usize, swapped as usize, 1, 0];
    for v in 0..POOL {
        let out = (swapped && p == v) as usize + (x2 == v) as usize + (x3 == v) as usize + (f == v) as usize;
        vassert(out == inn[v], 66 + v as u32);
    }
    expect_counts(f, usize::MAX);
    vassert(slots_all_empty(), 42);
    cover(13);
}

/// rcu "increment": install the next pool object on top of exactly the one that was read
#[no_mangle]
pub extern "C" fn cs_w_rcu_t1() {
    let prev = a().rcu(|v| pool(v.idx() + 1).clone());
    merge();
    *CX_RES[0].mu() = check_payload(&prev, 24);
    drop(prev);
    merge();
}
#[no_mangle]
pub extern "C" fn cs_w_rcu_t2() {
    let prev = a().rcu(|v| pool(v.idx() + 1).clone());
    merge();
    *CX_RES[1].mu() = check_payload(&prev, 25);
    drop(prev);
    merge();
}
#[no_mangle]
pub extern "C" fn cs_final_rcu2() {
    let g = a().load();
    merge();
    let f = check_payload(&g, 41);
    drop(g);
    merge();
    // two increments compose: 0 -> 1 -> 2, each rcu returns what it replaced
    vassert(f == 2, 63);
    let (p, q) = (*CX_RES[0].get(), *CX_RES[1].get());
    vassert((p == 0 && q == 1) || (p == 1 && q == 0), 64);
    expect_counts(f, usize::MAX);
    vassert(slots_all_empty(), 42);
    cover(13);
}

/// adversary for C08 (native replay only): each call is one complete write of a value the reader
/// has not seen for the last 15 writes, so nothing it published is paid or confirmed by coincidence
#[no_mangle]
pub extern "C" fn cs_adv_store() {
    static TURN: HAtomic = HAtomic::new(0);
    static ADV: [SCell<Option<VPtr>>; 16] = [NOV; 16];
    let k = TURN.peek();
    TURN.store_ungated((k + 1) % 16);
    if ADV[k].get().is_none() {
        *ADV[k].mu() = Some(VPtr::adopt(&ADV_OBJS[k], 100 + k as u64));
    }
    a().store(ADV[k].get().as_ref().unwrap().clone());
}
/// reader bodies for C08 (need cs_setup_pool): one load / one load_full
#[no_mangle]
pub extern "C" fn cs_r_load_only() {
    let g = a().load();
    merge();
    vassert(g.read() >= 10, 1);
    drop(g);
    merge();
}
/// two writes by the other thread, so that every cell the reader looks at has seen every kind of value
#[no_mangle]
pub extern "C" fn cs_w_store_pool12() {
    a().store(pool(1).clone());
    merge();
    a().store(pool(2).clone());
    merge();
}
/// prologue: 8 guards of A itself parked (fast slots full with debts a writer will pay)
#[no_mangle]
pub extern "C" fn cs_fill8a_t1() {
    for i in 0..8 {
        *CX_HELD1[i].mu() = Some(a().load());
    }
}

/// prologue of thread 1: a guard of A parked for another thread
#[no_mangle]
pub extern "C" fn cs_park_t1() {
    *CX_PARKED.mu() = Some(a().load());
}
/// thread 2 drops the guard that thread 1 created
#[no_mangle]
pub extern "C" fn cs_drop_parked() {
    let g = CX_PARKED.mu().take().unwrap();
    merge();
    check_payload(&g, 26);
    drop(g);
    merge();
}

/// prologue of thread 1 for C13: fast slots full (guards of B) and the generation at the wrap
#[no_mangle]
pub extern "C" fn cs_fill8_wrap_t1() {
    for i in 0..8 {
        *CX_HELD1[i].mu() = Some(b().load());
    }
    set_generation(u64::MAX - 3);
}

// ------------------------------------------------------------------ C16: cache under concurrent stores

pub static CX_CACHE: SCell<Option<arc_swap::cache::Cache<&'static AS, VPtr>>> = SCell::new(None);

/// prologue of thread 1: a cache that currently holds the initial value
#[no_mangle]
pub extern "C" fn cs_cache_init_t1() {
    let mut c = arc_swap::cache::Cache::new(a());
    let v = c.load();
    vassert(v.idx() == 0, 27);
    *CX_CACHE.mu() = Some(c);
}
/// thread 1: a store whose completion was observed before the call must be reflected by Cache::load
#[no_mangle]
pub extern "C" fn cs_r_cache_rt() {
    let d0 = DONE.load(SeqCst);
    let c = CX_CACHE.mu().as_mut().unwrap();
    let i = {
        let v = c.load();
        merge();
        check_payload(v, 28)
    };
    let s1 = STARTED.load(SeqCst);
    vassert(i >= d0 && i <= s1, 29);
    cover(15);
}
/// final: the cache holds exactly one reference, release it and do the usual accounting
#[no_mangle]
pub extern "C" fn cs_final_cache() {
    *CX_CACHE.mu() = None;
    cs_final1();
}

// ------------------------------------------------------------------ C03/C12: helping path, two operations of the reader

/// A = obj0, B = obj2, C (third container, only there to fill fast slots) = obj3; obj1 spare
pub static CX_C: SCell<Option<AS>> = SCell::new(None);
#[no_mangle]
pub extern "C" fn cs_setup3() {
    cs_setup_pool();
    *CX_B.mu() = Some(AS::new(pool(2).clone()));
    *CX_C.mu() = Some(AS::new(pool(3).clone()));
}
/// thread 1: all 8 fast slots taken by guards of C
#[no_mangle]
pub extern "C" fn cs_fill8c_t1() {
    for i in 0..8 {
        *CX_HELD1[i].mu() = Some(CX_C.get().as_ref().unwrap().load());
    }
}
/// C03: a fallback load, then the thread itself stores obj1 into A, then loads again (fallback): the second
/// load starts after a store that has returned, it must not see anything older
#[no_mangle]
pub extern "C" fn cs_r_load_store_load() {
    let g = a().load();
    merge();
    check_payload(&g, 33);
    drop(g);
    merge();
    a().store(pool(1).clone());
    merge();
    let g = a().load();
    merge();
    let i = check_payload(&g, 34);
    // the other thread only ever stores obj2 into A: after our own store the value is obj1 or obj2, never obj0
    vassert(i == 1 || i == 2, 35);
    drop(g);
    merge();
}
#[no_mangle]
pub extern "C" fn cs_w_store_a2() {
    a().store(pool(2).clone());
    merge();
}
/// C12: the reader alternates fallback loads between B and A while a writer of B helps
#[no_mangle]
pub extern "C" fn cs_r_load_b_then_a() {
    let g = b().load();
    merge();
    let i = check_payload(&g, 36);
    vassert(i == 2 || i == 3, 37); // B holds obj2, the writer stores obj3 there
    drop(g);
    merge();
    let g = a().load();
    merge();
    let i = check_payload(&g, 38);
    vassert(i == 0, 39); // nobody writes A: anything else came from another container
    drop(g);
    merge();
}
#[no_mangle]
pub extern "C" fn cs_w_store_b_pool3() {
    b().store(pool(3).clone());
    merge();
}
/// final for the three-container scenarios: give back the slot fillers, then check A, B, C
#[no_mangle]
pub extern "C" fn cs_final3() {
    for i in 0..8 {
        if let Some(h) = CX_HELD1[i].mu().take() {
            drop(h);
        }
    }
    vassert(slots_all_empty(), 40);
    let mut stored = [0usize; POOL];
    for c in [a(), b(), CX_C.get().as_ref().unwrap()] {
        let g = c.load();
        merge();
        stored[check_payload(&g, 41)] += 1;
        drop(g);
        merge();
    }
    for i in 0..POOL {
        vassert(count_of_gated(i) == stored[i] + 1, 50 + i as u32); // + the pool's own handle
    }
    cover(13);
}

// ------------------------------------------------------------------ C06: rcu and address reuse

/// A = obj0, obj1 spare; obj2 and obj3 are unborn (free memory the threads may bring to life)
#[no_mangle]
pub extern "C" fn cs_setup_min() {
    *CX_A.mu() = Some(AS::new(VPtr::create(0, 10)));
    *CX_SPARE[1].mu() = Some(VPtr::create(1, 11));
}

/// thread 1: rcu "increment by payload": the new value is obj2 carrying payload(old) + 1
#[no_mangle]
pub extern "C" fn cs_w_rcu_payload() {
    let prev = a().rcu(|v| {
        let p = v.read();
        // (re-)create obj2 with the computed payload; a retry re-creates it, the discarded one is dead by then
        VPtr::create(2, p + 1)
    });
    merge();
    *CX_RES[0].mu() = prev.read() as usize;
    drop(prev);
    merge();
}
/// thread 2: replaces the value and then stores a NEW value that re-uses the memory of the first one if that
/// has been freed meanwhile (what an allocator may do): same address, different content
#[no_mangle]
pub extern "C" fn cs_w_store_reuse() {
    a().store(spare(1)); // obj0 loses the container's reference
    merge();
    let v = if OBJS[0].count.load(Relaxed) == 0 { VPtr::create(0, 50) } else { VPtr::create(3, 50) };
    a().store(v);
    merge();
}
/// final: the outcome must be one a serial order of {rcu(+1)} and {store(11); store(50)} can produce
#[no_mangle]
pub extern "C" fn cs_final_rcu_reuse() {
    let g = a().load();
    merge();
    let f = g.read();
    drop(g);
    merge();
    let seen = *CX_RES[0].get() as u64;
    // rcu first: 10 -> 11(obj2) -> 11(obj1) -> 50: final 50, seen 10
    // rcu between the stores: final 50, seen 11 (rcu installed 12, overwritten)
    // rcu last: final 51, seen 50
    vassert((f == 50 && (seen == 10 || seen == 11)) || (f == 51 && seen == 50), 65);
    vassert(slots_all_empty(), 42);
    cover(13);
}

// ------------------------------------------------------------------ C09: solo completion

/// thread 1: has used the crate (prologue), now exits: its node goes to cooldown
#[no_mangle]
pub extern "C" fn cs_exit_t1() {
    thread_exit_self(1);
}
/// a thread that never used the crate before writes (claims or allocates a node first)
#[no_mangle]
pub extern "C" fn cs_w_cold_store() {
    a().store(pool(2).clone());
}
/// a warmed-up writer
#[no_mangle]
pub extern "C" fn cs_w_store_pool1() {
    a().store(pool(1).clone());
}
#[no_mangle]
pub extern "C" fn cs_w_swap_pool3() {
    let old = a().swap(pool(3).clone());
    drop(old);
}

// ------------------------------------------------------------------ C07: publication / data races

/// like cs_setup2 but destruction scribbles over the payload (a plain write)
#[no_mangle]
pub extern "C" fn cs_setup2_scribble() {
    cs_setup2();
    SCRIBBLE.store_ungated(1);
}
#[no_mangle]
pub extern "C" fn cs_setup1_scribble() {
    cs_setup1();
    SCRIBBLE.store_ungated(1);
}

/// writer: fill in the value (plain writes) and only then publish it; the old value is destroyed
#[no_mangle]
pub extern "C" fn cs_w_publish1() {
    let v = spare(1);
    v.set_payload(77);
    a().store(v);
    merge();
}
/// reader: whatever it gets, the payload is what was written before publication
#[no_mangle]
pub extern "C" fn cs_r_published() {
    let g = a().load();
    merge();
    let p = g.read();
    vassert((g.idx() == 0 && p == 10) || (g.idx() == 1 && p == 77), 30);
    drop(g);
    merge();
}
/// reader through load_full (owned handle)
#[no_mangle]
pub extern "C" fn cs_r_published_full() {
    let v = a().load_full();
    merge();
    let p = v.read();
    vassert((v.idx() == 0 && p == 10) || (v.idx() == 1 && p == 77), 31);
    drop(v);
    merge();
}
/// writer that takes the previous value out and looks into it (it was published by the setup)
#[no_mangle]
pub extern "C" fn cs_w_publish_swap() {
    let v = spare(1);
    v.set_payload(77);
    let old = a().swap(v);
    merge();
    vassert(old.read() == 10, 32);
    drop(old);
    merge();
}

// ------------------------------------------------------------------ C04 on an Option container (null is a value)

pub type ASO = ArcSwapAny<Option<VPtr>>;
pub static CX_O: SCell<Option<ASO>> = SCell::new(None);
const NONE_IDX: usize = 9;

#[inline(always)]
fn o() -> &'static ASO {
    CX_O.get().as_ref().unwrap()
}
#[inline(always)]
fn rec_opt(x: &Option<VPtr>, id: u32) -> usize {
    match x {
        None => NONE_IDX,
        Some(v) => check_payload(v, id),
    }
}
/// O = Some(obj0); the harness keeps one handle to every pool object
#[no_mangle]
pub extern "C" fn cs_setup_opt() {
    for i in 0..POOL {
        *CX_POOL[i].mu() = Some(VPtr::create(i, 10 + i as u64));
    }
    *CX_O.mu() = Some(ASO::new(Some(pool(0).clone())));
}
/// "take": swap(None), recording what came out
#[no_mangle]
pub extern "C" fn cs_w_take_r0() {
    let x = o().swap(None);
    *CX_RES[0].mu() = rec_opt(&x, 22);
    drop(x);
}
#[no_mangle]
pub extern "C" fn cs_w_take_r1() {
    let x = o().swap(None);
    *CX_RES[1].mu() = rec_opt(&x, 23);
    drop(x);
}
#[no_mangle]
pub extern "C" fn cs_w_optswap1_r1() {
    let x = o().swap(Some(pool(1).clone()));
    *CX_RES[1].mu() = rec_opt(&x, 23);
    drop(x);
}
/// store(None) racing a swap: store is drop(swap()), nothing to record
#[no_mangle]
pub extern "C" fn cs_w_optstore_none() {
    o().store(None);
    *CX_RES[0].mu() = usize::MAX;
}
fn opt_final(puts: [usize; 2], unknown_first: bool) {
    let g = o().load();
    let f = rec_opt(&g, 41);
    drop(g);
    let x = *CX_RES[0].get();
    let y = *CX_RES[1].get();
    // values that went in: obj0 (initially) and `puts`; values that came out: x, y and what is left (f).
    // Each one exactly once: compare the two multisets over {obj0..obj3, None}.
    let mut inn = [0usize; 10];
    let mut out = [0usize; 10];
    inn[0] += 1;
    inn[puts[0]] += 1;
    inn[puts[1]] += 1;
    out[f] += 1;
    out[y] += 1;
    if unknown_first {
        // thread 1 used store(): its previous value was dropped inside, so it is whatever is missing
        let mut miss = 0;
        for i in 0..10 {
            vassert(out[i] <= inn[i], 66);
            miss += inn[i] - out[i];
        }
        vassert(miss == 1, 67);
    } else {
        out[x] += 1;
        for i in 0..10 {
            vassert(out[i] == inn[i], 66);
        }
    }
    // counts: the pool handle, plus one if the container still holds it; nothing else survives
    for i in 0..POOL {
        let want = 1 + if f == i { 1 } else { 0 };
        vassert(count_of_gated(i) == want, 50 + i as u32);
    }
    vassert(slots_all_empty(), 42);
    cover(13);
}
#[no_mangle]
pub extern "C" fn cs_final_opt_take2() {
    opt_final([NONE_IDX, NONE_IDX], false);
}
#[no_mangle]
pub extern "C" fn cs_final_opt_clear() {
    opt_final([NONE_IDX, 1], false);
}
#[no_mangle]
pub extern "C" fn cs_final_opt_store() {
    opt_final([NONE_IDX, 1], true);
}

// ------------------------------------------------------------------ finals

fn expect_counts(stored_a: usize, stored_b: usize) {
    for i in 0..POOL {
        let mut want = 0;
        if i == stored_a {
            want += 1;
        }
        if i == stored_b {
            want += 1;
        }
        if CX_KEPT[i].get().is_some() {
            want += 1;
        }
        if CX_SPARE[i].get().is_some() {
            want += 1;
        }
        if CX_POOL[i].get().is_some() {
            want += 1;
        }
        vassert(count_of_gated(i) == want, 50 + i as u32);
    }
}

#[inline(always)]
fn count_of_gated(i: usize) -> usize {
    OBJS[i].count.load(Relaxed)
}

/// one container, all guards gone: counts exact, slots empty
#[no_mangle]
pub extern "C" fn cs_final1() {
    vassert(slots_all_empty(), 40);
    let g = a().load();
    merge();
    let i = check_payload(&g, 41);
    drop(g);
    merge();
    expect_counts(i, usize::MAX);
    vassert(slots_all_empty(), 42);
    cover(13);
}

/// like cs_final2 after giving back the parked guards
#[no_mangle]
pub extern "C" fn cs_final2_release() {
    for i in 0..8 {
        if let Some(h) = CX_HELD1[i].mu().take() {
            check_payload(&h, 44);
            drop(h);
        }
        if let Some(h) = CX_HELD2[i].mu().take() {
            check_payload(&h, 45);
            drop(h);
        }
    }
    cs_final2();
}

/// the parked guards of thread 1 are given back by the final function (any thread may do that),
/// then the usual accounting
#[no_mangle]
pub extern "C" fn cs_final1_release() {
    for i in 0..8 {
        if let Some(h) = CX_HELD1[i].mu().take() {
            check_payload(&h, 44);
            drop(h);
        }
        if let Some(h) = CX_HELD2[i].mu().take() {
            check_payload(&h, 45);
            drop(h);
        }
    }
    cs_final1();
}

/// two containers
#[no_mangle]
pub extern "C" fn cs_final2() {
    vassert(slots_all_empty(), 40);
    let g = a().load();
    merge();
    let i = check_payload(&g, 41);
    drop(g);
    merge();
    let g = b().load();
    merge();
    let j = check_payload(&g, 43);
    drop(g);
    merge();
    expect_counts(i, j);
    cover(13);
}

/// a second publishing writer (obj3, payload 78) for three-thread publication scenarios (needs cs_setup1_scribble)
#[no_mangle]
pub extern "C" fn cs_w_publish3() {
    let v = spare(3);
    v.set_payload(78);
    a().store(v);
}
/// reader for the three-thread scenarios
#[no_mangle]
pub extern "C" fn cs_r_published3() {
    let g = a().load();
    let p = g.read();
    let i = g.idx();
    vassert((i == 0 && p == 10) || (i == 1 && p == 77) || (i == 3 && p == 78), 30);
    drop(g);
    let v = a().load_full();
    let p = v.read();
    let i = v.idx();
    vassert((i == 0 && p == 10) || (i == 1 && p == 77) || (i == 3 && p == 78), 31);
    drop(v);
}
