//! Concurrent scenarios on the fallback-only strategy (`HybridStrategy<NoFastSlots>`): every load takes
//! the helping path without first having to fill the eight fast slots, which keeps multi-operation
//! reader scenarios small. (Feature `test-strategies`.)
#![cfg(feature = "test-strategies")]
#![allow(deprecated)]
use crate::rt::*;
use crate::scn_conc::{SCell, CX_POOL, CX_RES};
use crate::vptr::*;
use arc_swap::strategy::test_strategies::FillFastSlots;
use arc_swap::ArcSwapAny;
use core::sync::atomic::Ordering::*;

pub type ASN = ArcSwapAny<VPtr, FillFastSlots>;
pub static NF_A: SCell<Option<ASN>> = SCell::new(None);
pub static NF_B: SCell<Option<ASN>> = SCell::new(None);

#[inline(always)]
fn a() -> &'static ASN {
    NF_A.get().as_ref().unwrap()
}
#[inline(always)]
fn b() -> &'static ASN {
    NF_B.get().as_ref().unwrap()
}
#[inline(always)]
fn pool(i: usize) -> &'static VPtr {
    CX_POOL[i].get().as_ref().unwrap()
}
#[inline(always)]
fn idx_checked(v: &VPtr, id: u32) -> usize {
    let i = v.idx();
    let p = v.read();
    vassert(i < POOL && p == 10 + i as u64, id);
    i
}

/// A = obj0, B = obj2; the harness keeps one handle to every pool object
#[no_mangle]
pub extern "C" fn nf_setup() {
    for i in 0..POOL {
        *CX_POOL[i].mu() = Some(VPtr::create(i, 10 + i as u64));
    }
    *NF_A.mu() = Some(ASN::new(pool(0).clone()));
    *NF_B.mu() = Some(ASN::new(pool(2).clone()));
}
#[no_mangle]
pub extern "C" fn nf_warm() {
    drop(a().load());
}

/// C12: the reader alternates helping loads between B and A while a writer of B helps it
#[no_mangle]
pub extern "C" fn nf_r_load_b_then_a() {
    let g = b().load();
    merge();
    let i = idx_checked(&g, 36);
    vassert(i == 2 || i == 3, 37);
    drop(g);
    merge();
    let g = a().load();
    merge();
    let i = idx_checked(&g, 38);
    vassert(i == 0, 39); // nobody writes A: anything else came out of another container
    drop(g);
    merge();
}
#[no_mangle]
pub extern "C" fn nf_w_store_b3() {
    b().store(pool(3).clone());
    merge();
}

/// C03: helping load, own store of obj1, helping load again: the second load started after a completed store
#[no_mangle]
pub extern "C" fn nf_r_load_store_load() {
    let g = a().load();
    merge();
    idx_checked(&g, 33);
    drop(g);
    merge();
    a().store(pool(1).clone());
    merge();
    let g = a().load();
    merge();
    let i = idx_checked(&g, 34);
    vassert(i == 1 || i == 2, 35);
    drop(g);
    merge();
}
#[no_mangle]
pub extern "C" fn nf_w_store_a2() {
    a().store(pool(2).clone());
    merge();
}

/// final: counts exact, no debt slot occupied
#[no_mangle]
pub extern "C" fn nf_final() {
    vassert(slots_all_empty(), 40);
    let mut stored = [0usize; POOL];
    let g = a().load();
    merge();
    stored[idx_checked(&g, 41)] += 1;
    drop(g);
    merge();
    let g = b().load();
    merge();
    stored[idx_checked(&g, 43)] += 1;
    drop(g);
    merge();
    for i in 0..POOL {
        vassert(OBJS[i].count.load(Relaxed) == stored[i] + 1, 50 + i as u32);
    }
    let _ = &CX_RES;
    cover(13);
}
