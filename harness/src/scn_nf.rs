//! Concurrent scenarios on the fallback-only strategy (`HybridStrategy<NoFastSlots>`): every load takes
//! the helping path without first having to fill the eight fast slots, which keeps multi-operation
//! reader scenarios small. (Feature `test-strategies`.)
#![cfg(feature = "test-strategies")]
#![allow(deprecated)]
use crate::rt::*;
use crate::scn_conc::{SCell, CX_POOL, CX_RES};
use crate::vptr::*;
use arc_swap::strategy::test_strategies::FillFastSlots;
use arc_swap::ArcSwapAny;
use core::sync::atomic::Ordering::*;

pub type ASN = ArcSwapAny<VPtr, FillFastSlots>;
pub static NF_A: SCell<Option<ASN>> = SCell::new(None);
pub static NF_B: SCell<Option<ASN>> = SCell::new(None);

#[inline(always)]
fn a() -> &'static ASN {
    NF_A.get().as_ref().unwrap()
}
#[inline(always)]
fn b() -> &'static ASN {
    NF_B.get().as_ref().unwrap()
}
#[inline(always)]
fn pool(i: usize) -> &'static VPtr {
    CX_POOL[i].get().as_ref().unwrap()
}
#[inline(always)]
fn idx_checked(v: &VPtr, id: u32) -> usize {
    let i = v.idx();
    let p = v.read();
    vassert(i < POOL && p == 10 + i as u64, id);
    i
}

/// A = obj0, B = obj2; the harness keeps one handle to every pool object
#[no_mangle]
pub extern "C" fn nf_setup() {
    for i in 0..POOL {
        *CX_POOL[i].mu() = Some(VPtr::create(i, 10 + i as u64));
    }
    *NF_A.mu() = Some(ASN::new(pool(0).clone()));
    *NF_B.mu() = Some(ASN::new(pool(2).clone()));
}
#[no_mangle]
pub extern "C" fn nf_warm() {
    drop(a().load());
}

/// C12: the reader alternates helping loads between B and A while a writer of B helps it
#[no_mangle]
pub extern "C" fn nf_r_load_b_then_a() {
    let g = b().load();
    merge();
    let i = idx_checked(&g, 36);
    vassert(i == 2 || i == 3, 37);
    drop(g);
    merge();
    let g = a().load();
    merge();
    let i = idx_checked(&g, 38);
    vassert(i == 0, 39); // nobody writes A: anything else came out of another container
    drop(g);
    merge();
}
#[no_mangle]
pub extern "C" fn nf_w_store_b3() {
    b().store(pool(3).clone());
    merge();
}

/// C03: helping load, own store of obj1, helping load again: the second load started after a completed store
#[no_mangle]
pub extern "C" fn nf_r_load_store_load() {
    let g = a().load();
    merge();
    idx_checked(&g, 33);
    drop(g);
    merge();
    a().store(pool(1).clone());
    merge();
    let g = a().load();
    merge();
    let i = idx_checked(&g, 34);
    vassert(i == 1 || i == 2, 35);
    drop(g);
    merge();
}
#[no_mangle]
pub extern "C" fn nf_w_store_a2() {
    a().store(pool(2).clone());
    merge();
}

/// C03, sharper: the same reader, recording what its second load returned; the final function then knows the
/// whole write history (A: obj0, then obj1 by the reader and obj2 by the writer in either order) and can tell a
/// stale hand-over from a legitimate late write: the second load started after the reader's own store(obj1)
/// returned, so it may return obj2 only if the writer's swap came after that store - and then obj2 is what
/// the container holds in the end.
#[no_mangle]
pub extern "C" fn nf_r_load_store_load_rec() {
    let g = a().load();
    idx_checked(&g, 33);
    drop(g);
    a().store(pool(1).clone());
    let g = a().load();
    let i = idx_checked(&g, 34);
    vassert(i == 1 || i == 2, 35);
    *CX_RES[0].mu() = i;
    drop(g);
}
/// C13 (iii): the generation wrap with a concurrent writer helping at that moment. The reader's first helping
/// transaction has generation 4; the hook then moves the thread's counter to the wrap, the next load retires the
/// node and runs generation 0 on another node, and after the reader's own store the generation is 4 again. A
/// writer that has been inside the old node since the first transaction must not be able to hand its long-gone
/// replacement to the last load. Same oracle as `nf_r_load_store_load_rec`.
#[no_mangle]
pub extern "C" fn nf_r_wrap_rec() {
    let g = a().load();
    idx_checked(&g, 33);
    drop(g);
    set_generation(u64::MAX - 3);
    let g = a().load();
    idx_checked(&g, 36);
    drop(g);
    a().store(pool(1).clone());
    let g = a().load();
    let i = idx_checked(&g, 34);
    vassert(i == 1 || i == 2, 35);
    *CX_RES[0].mu() = i;
    drop(g);
}
/// C11: thread churn against a helping writer. Thread 1 (new) loads - its first helping transaction, generation
/// 4 -, stores obj1 and exits; thread 3 is started after thread 1 has finished (context-bounded runs only: spec
/// key `after`) and loads - again a first transaction, generation 4. A writer that entered thread 1's node during
/// the first transaction may still be inside when thread 3 looks for a node: the node must not serve thread 3's
/// transaction while that writer can still complete the old one. Oracle as above (thread 3's load started after
/// store(obj1) returned).
#[no_mangle]
pub extern "C" fn nf_r1_load_store_exit() {
    let g = a().load();
    idx_checked(&g, 33);
    drop(g);
    a().store(pool(1).clone());
    thread_exit_self(1);
}
#[no_mangle]
pub extern "C" fn nf_r3_load_rec() {
    let g = a().load();
    let i = idx_checked(&g, 34);
    vassert(i == 1 || i == 2, 35);
    *CX_RES[0].mu() = i;
    drop(g);
}
#[no_mangle]
pub extern "C" fn nf_final_lin() {
    let second = *CX_RES[0].get();
    let g = a().load();
    let f = idx_checked(&g, 41);
    drop(g);
    vassert(f == 1 || f == 2, 44);
    vassert(second != 2 || f == 2, 45);
    nf_final();
}

/// final: counts exact, no debt slot occupied
#[no_mangle]
pub extern "C" fn nf_final() {
    vassert(slots_all_empty(), 40);
    let mut stored = [0usize; POOL];
    let g = a().load();
    merge();
    stored[idx_checked(&g, 41)] += 1;
    drop(g);
    merge();
    let g = b().load();
    merge();
    stored[idx_checked(&g, 43)] += 1;
    drop(g);
    merge();
    for i in 0..POOL {
        vassert(OBJS[i].count.load(Relaxed) == stored[i] + 1, 50 + i as u32);
    }
    let _ = &CX_RES;
    cover(13);
}

// ------------------------------------------------------------------ C09, freeze mode (see scn_c09.rs)

/// subject: every writer-side operation on the fallback-only container, a (fully owned) guard held across them
#[no_mangle]
pub extern "C" fn nf_s_writer_ops() {
    let g = a().load();
    a().store(pool(1).clone());
    let prev = a().compare_and_swap(pool(1), pool(3).clone());
    drop(prev);
    let old = a().rcu(|v| pool((v.idx() + 1) % POOL).clone());
    drop(old);
    let old = a().swap(pool(0).clone());
    drop(old);
    drop(g);
    let gb = b().load();
    drop(gb);
    cover(13);
}
/// frozen reader: two helping loads of A
#[no_mangle]
pub extern "C" fn nf_r_load2() {
    let g = a().load();
    idx_checked(&g, 33);
    drop(g);
    let g = a().load();
    idx_checked(&g, 34);
    drop(g);
}

// ------------------------------------------------------------------ C12/C13: the wrap moves the reader onto a node last used for ANOTHER container

/// prologue of thread 2: first use of the crate (its node is newer than thread 1's) is a helping load of B
#[no_mangle]
pub extern "C" fn nf_pre_load_b() {
    let g = b().load();
    idx_checked(&g, 46);
    drop(g);
}
/// thread 2: exits (its node - which last advertised container B - becomes free)
#[no_mangle]
pub extern "C" fn nf_exit_t2() {
    thread_exit_self(2);
}
/// thread 1: helping load of A, then the generation wrap (the thread moves to whatever node is free - thread 2's
/// if that has exited), then more loads of A. Nobody writes A: every load of A returns obj0.
#[no_mangle]
pub extern "C" fn nf_r_wrap_a() {
    let g = a().load();
    vassert(idx_checked(&g, 33) == 0, 47);
    drop(g);
    set_generation(u64::MAX - 3);
    let g = a().load();
    vassert(idx_checked(&g, 36) == 0, 48);
    drop(g);
    let g = a().load();
    vassert(idx_checked(&g, 34) == 0, 49);
    drop(g);
}

// ------------------------------------------------------------------ C11: two new threads want the node of an exited one

#[no_mangle]
pub extern "C" fn nf_exit_t1() {
    thread_exit_self(1);
}
/// a new thread: two helping loads of A (nobody writes A)
#[no_mangle]
pub extern "C" fn nf_r_new_load2() {
    let g = a().load();
    vassert(idx_checked(&g, 33) == 0, 47);
    drop(g);
    let g = a().load();
    vassert(idx_checked(&g, 34) == 0, 48);
    drop(g);
}

// ------------------------------------------------------------------ C03 across churn, minimal (K=4 reachable)
/// thread 1 (new): one helping load, then the thread exits
#[no_mangle]
pub extern "C" fn nf_r1_load_exit() {
    let g = a().load();
    idx_checked(&g, 33);
    drop(g);
    thread_exit_self(1);
}
/// thread 3 (started after thread 1 has exited): store(obj1), then a load which must not return anything older.
/// The thread has one earlier helping transaction behind it (generation preset to 4, like thread 1 after its
/// warm-up), so its load carries the same generation number as the load of thread 1.
#[no_mangle]
pub extern "C" fn nf_r3_store_load_rec() {
    a().store(pool(1).clone());
    set_generation(4);
    let g = a().load();
    let i = idx_checked(&g, 34);
    vassert(i == 1 || i == 2, 35);
    *CX_RES[0].mu() = i;
    drop(g);
}

// ------------------------------------------------------------------ C07 on the helping path
/// like nf_setup, destruction scribbles over the payload (a plain write)
#[no_mangle]
pub extern "C" fn nf_setup_scribble() {
    nf_setup();
    SCRIBBLE.store_ungated(1);
}
/// reader: whatever it gets (also from a helper), the payload is what was written before publication
#[no_mangle]
pub extern "C" fn nf_r_published() {
    let g = a().load();
    let p = g.read();
    let i = g.idx();
    vassert((i == 0 && p == 10) || (i == 1 && p == 77) || (i == 3 && p == 78), 30);
    drop(g);
}
/// writers: take a fresh handle out of the pool objects, fill it in (plain write), publish; the old value may die
#[no_mangle]
pub extern "C" fn nf_w_publish1() {
    let v = CX_POOL[1].mu().take().unwrap();
    v.set_payload(77);
    a().store(v);
}
#[no_mangle]
pub extern "C" fn nf_w_publish3() {
    let v = CX_POOL[3].mu().take().unwrap();
    v.set_payload(78);
    a().store(v);
}
/// final: only accounting that does not depend on which pool handles are left
#[no_mangle]
pub extern "C" fn nf_final_pub() {
    vassert(slots_all_empty(), 40);
    let g = a().load();
    let p = g.read();
    vassert(p == 77 || p == 78, 41);
    drop(g);
    cover(13);
}
