//! Concurrent scenarios added after the third round of seeded changes: memory re-use (an allocator handing out
//! the address of a freed value again) against compare_and_swap with every form of `current` and against the
//! Cache; projections (Map, DynAccess) loaded on the fallback path while a writer replaces the value.
//!
//! "Address re-use" is modelled with the pool objects of `vptr.rs`: a pool object whose count has fallen to zero
//! is dead, and bringing the same pool object to life again (`VPtr::create`) is a new value at the old address.
use crate::rt::*;
use crate::scn_conc::{SCell, AS, CX_A, CX_RES, CX_SPARE, DONE, STARTED};
use crate::vptr::*;
use arc_swap::access::{Access, DynAccess, Map};
use core::sync::atomic::Ordering::*;

#[inline(always)]
fn a() -> &'static AS {
    CX_A.get().as_ref().unwrap()
}
#[inline(always)]
fn spare(i: usize) -> VPtr {
    CX_SPARE[i].mu().take().unwrap()
}

// ------------------------------------------------------------------ C05: compare_and_swap and address re-use

/// A = obj0 (the container is its ONLY owner), obj1 and obj2 spare, obj3 unborn
#[no_mangle]
pub extern "C" fn r3_setup_cas() {
    *CX_A.mu() = Some(AS::new(VPtr::create(0, 10)));
    *CX_SPARE[1].mu() = Some(VPtr::create(1, 11));
    *CX_SPARE[2].mu() = Some(VPtr::create(2, 12));
}
/// T1: loads a guard and passes it as `current` in one of the accepted forms. While the call holds `current`
/// the object it denotes cannot go away, so whatever sits at that address when the exchange succeeds IS that
/// object: a successful exchange hands back the very value the guard showed (same payload).
#[no_mangle]
pub extern "C" fn r3_cas_guard_forms() {
    let form = nondet(1);
    assume(form < 3);
    let g = a().load();
    let seen = g.read();
    let gi = g.idx();
    let new = spare(2);
    let prev = if form == 0 {
        a().compare_and_swap(g, new) // by value
    } else if form == 1 {
        let r = a().compare_and_swap(&g, new); // reference to the guard
        drop(g);
        r
    } else {
        let full = arc_swap::Guard::into_inner(g);
        let r = a().compare_and_swap(&full, new); // borrowed pointer
        drop(full);
        r
    };
    let hit = prev.idx() == gi;
    let p = prev.read();
    vassert(!hit || p == seen, 70);
    *CX_RES[0].mu() = p as usize;
    *CX_RES[1].mu() = hit as usize;
    drop(prev);
}
/// T2: store(obj1); then a NEW value (payload 50) that re-uses obj0's memory if obj0 has been freed meanwhile
#[no_mangle]
pub extern "C" fn r3_store_reuse() {
    a().store(spare(1));
    let v = if OBJS[0].count.load(Relaxed) == 0 { VPtr::create(0, 50) } else { VPtr::create(3, 50) };
    a().store(v);
}
/// final: the outcome is one that a serial order of {cas(x -> 12)} and {store(11); store(50)} produces
#[no_mangle]
pub extern "C" fn r3_final_cas() {
    let g = a().load();
    let f = g.read();
    drop(g);
    let p = *CX_RES[0].get() as u64;
    let hit = *CX_RES[1].get() == 1;
    // cas first: saw 10, hit, overwritten -> 50; cas in the middle: its guard is obj1 (11), hit, overwritten -> 50;
    // cas last: guard is the 50-value, hit, final 12. A miss (p differs from what the guard showed) leaves 50.
    vassert((hit && (p == 10 || p == 11) && f == 50) || (hit && p == 50 && f == 12) || (!hit && f == 50), 71);
    vassert(slots_all_empty(), 42);
    // everything that is not stored has been destroyed: the container's value is the only live object
    let mut live = 0;
    for i in 0..POOL {
        live += (count_of(i) != 0) as usize;
        vassert(count_of(i) <= 1, 72);
    }
    vassert(live == 1, 73);
    cover(13);
}

// ------------------------------------------------------------------ C16: Cache and address re-use

pub static R3_CACHE: SCell<Option<arc_swap::cache::Cache<&'static AS, VPtr>>> = SCell::new(None);

#[inline(always)]
fn order_of(payload: u64) -> usize {
    match payload {
        10 => 0,
        11 => 1,
        12 => 2,
        50 => 3,
        _ => 99,
    }
}
/// prologue of T1: the cache holds the initial value obj0 (payload 10) and is already one store behind: the
/// container holds obj1 (payload 11)
#[no_mangle]
pub extern "C" fn r3_cache_init() {
    let mut c = arc_swap::cache::Cache::new(a());
    vassert(c.load().read() == 10, 27);
    *R3_CACHE.mu() = Some(c);
    a().store(spare(1));
    STARTED.store_ungated(1);
    DONE.store_ungated(1);
}
/// T1: two cache loads, each within the writer's progress window
#[no_mangle]
pub extern "C" fn r3_cache_load2() {
    let c = R3_CACHE.mu().as_mut().unwrap();
    let mut last = 0;
    for _ in 0..2 {
        let d0 = DONE.load(SeqCst);
        let i = order_of(c.load().read());
        let s1 = STARTED.load(SeqCst);
        vassert(i >= d0 && i <= s1 && i >= last, 29);
        last = i;
    }
}
/// T1, shorter: one cache load (the final function does the next one, after every store has completed)
#[no_mangle]
pub extern "C" fn r3_cache_load1() {
    let c = R3_CACHE.mu().as_mut().unwrap();
    let d0 = DONE.load(SeqCst);
    let i = order_of(c.load().read());
    let s1 = STARTED.load(SeqCst);
    vassert(i >= d0 && i <= s1, 29);
}
/// T2: store 12, then a new value (payload 50) in the memory of whichever earlier value has been freed
#[no_mangle]
pub extern "C" fn r3_cache_writer() {
    STARTED.store(2, SeqCst);
    a().store(spare(2));
    DONE.store(2, SeqCst);
    let v = if OBJS[1].count.load(Relaxed) == 0 {
        VPtr::create(1, 50)
    } else if OBJS[0].count.load(Relaxed) == 0 {
        VPtr::create(0, 50)
    } else {
        VPtr::create(3, 50)
    };
    STARTED.store(3, SeqCst);
    a().store(v);
    DONE.store(3, SeqCst);
}
/// final: every store has completed before this call: the cache returns the last value, holds one reference to
/// it and nothing else is alive
#[no_mangle]
pub extern "C" fn r3_final_cache() {
    {
        let c = R3_CACHE.mu().as_mut().unwrap();
        vassert(c.load().read() == 50, 74);
    }
    let mut live = 0;
    let mut refs = 0;
    for i in 0..POOL {
        live += (count_of(i) != 0) as usize;
        refs += count_of(i);
    }
    vassert(live == 1 && refs == 2, 75); // container + cache
    *R3_CACHE.mu() = None;
    vassert(slots_all_empty(), 42);
    cover(13);
}

// ------------------------------------------------------------------ C17: projections on the fallback path vs a writer

#[inline(always)]
fn proj(v: &VPtr) -> &Obj {
    v.obj()
}
#[inline(always)]
fn look(o: &Obj, id: u32) -> u64 {
    vassert(o.count.load(Relaxed) != 0, id);
    unsafe { *o.payload.get() }
}
/// T1 (its fast slots may be full: prologue cs_fill8_t1): loads through a Map and through a boxed DynAccess of a
/// Map; each guard is looked through twice with the thread's own store in between; the snapshot stays alive and
/// stays the same object.
#[no_mangle]
pub extern "C" fn r3_map_loads() {
    let m = Map::new(a(), proj as fn(&VPtr) -> &Obj);
    let g = Access::load(&m);
    let o1 = &*g as *const Obj as usize;
    let p1 = look(&g, 76);
    vassert(p1 == 10 || p1 == 11, 77);
    let g2 = {
        let d: Box<dyn DynAccess<Obj>> = Box::new(Map::new(a(), proj as fn(&VPtr) -> &Obj));
        DynAccess::load(&*d)
    };
    let p2 = look(&g2, 78);
    vassert(p2 >= p1 && (p2 == 10 || p2 == 11), 79);
    let p1b = look(&g, 80);
    vassert(p1b == p1 && (&*g as *const Obj as usize) == o1, 81);
    drop(g);
    drop(g2);
}
/// final for the above with cs_setup2 / cs_fill8_t1
#[no_mangle]
pub extern "C" fn r3_final_map() {
    crate::scn_conc::cs_final2_release();
}

// ------------------------------------------------------------------ C06: rcu against A-B-A of the stored pointer

#[inline(always)]
fn pool(i: usize) -> &'static VPtr {
    crate::scn_conc::CX_POOL[i].get().as_ref().unwrap()
}
/// T1 (needs cs_setup_pool): rcu "next object": v -> pool[(idx(v)+1) % 4]; records what it replaced
#[no_mangle]
pub extern "C" fn r3_rcu_next() {
    let prev = a().rcu(|v| pool((v.idx() + 1) % POOL).clone());
    *CX_RES[0].mu() = prev.idx();
    drop(prev);
}
/// final with T2 = cs_w_swap2_store0 (x = swap(obj2); store(obj0)): the outcome of a serial order
#[no_mangle]
pub extern "C" fn r3_final_rcu_aba() {
    let g = a().load();
    let f = g.idx();
    drop(g);
    let prev = *CX_RES[0].get();
    let x = *CX_RES[1].get();
    // rcu first: 0->1, swap takes 1, store 0 | rcu in the middle: 2->3 overwritten by store 0 | rcu last: 0->1 stays
    vassert((prev == 0 && x == 1 && f == 0) || (prev == 2 && x == 0 && f == 0) || (prev == 0 && x == 0 && f == 1), 82);
    vassert(slots_all_empty(), 42);
    for i in 0..POOL {
        vassert(count_of(i) == 1 + (i == f) as usize, 50 + i as u32);
    }
    cover(13);
}
/// the two halves of cs_w_swap2_store0 as separate threads (the second is started after the first has finished):
/// the A-B-A then needs one preemption less
#[no_mangle]
pub extern "C" fn r3_swap2_rec() {
    let x = a().swap(pool(2).clone());
    *CX_RES[1].mu() = x.idx();
    drop(x);
}
#[no_mangle]
pub extern "C" fn r3_store0() {
    a().store(pool(0).clone());
}
