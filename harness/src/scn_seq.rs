//! Sequential (M1) scenarios with real `Arc`: C05 (forms of `current`), C16 (Cache), C17 (Access).
use crate::rt::*;
use arc_swap::access::{Access, Constant, DynAccess, Map};
use arc_swap::cache::{Access as CacheAccess, Cache};
use arc_swap::{ArcSwap, ArcSwapOption, Guard};
use std::sync::Arc;

// ------------------------------------------------------------------------------------ C05

/// compare_and_swap through every accepted form of `current`; all must behave like the model.
#[no_mangle]
pub extern "C" fn c05_forms() {
    let pool: [Arc<u64>; 3] = [Arc::new(100), Arc::new(101), Arc::new(102)];
    let cur = nondet(1) as usize;
    let x = nondet(2) as usize;
    let k = nondet(3) as usize;
    let form = nondet(4);
    assume(cur < 3 && x < 3 && k < 3 && form < 5);
    let c = ArcSwap::new(pool[cur].clone());
    let new = pool[k].clone();
    let prev = match form {
        0 => c.compare_and_swap(&pool[x], new),
        1 => {
            // a guard of another container denoting pool[x]
            let other = ArcSwap::new(pool[x].clone());
            let g = other.load();
            c.compare_and_swap(&g, new)
        }
        2 => {
            let other = ArcSwap::new(pool[x].clone());
            let g = other.load();
            let r = c.compare_and_swap(g, new);
            drop(other);
            r
        }
        3 => c.compare_and_swap(Arc::as_ptr(&pool[x]), new),
        _ => c.compare_and_swap(Arc::as_ptr(&pool[x]) as *mut u64, new),
    };
    // returns what was stored immediately before; success decidable by pointer equality
    vassert(Arc::ptr_eq(&prev, &pool[cur]), 1);
    let swapped = Arc::ptr_eq(&prev, &pool[x]);
    vassert(swapped == (x == cur), 2);
    let now = c.load_full();
    vassert(Arc::ptr_eq(&now, &pool[if x == cur { k } else { cur }]), 3);
    drop(now);
    drop(prev);
    drop(c);
    vassert(Arc::strong_count(&pool[0]) == 1, 10);
    vassert(Arc::strong_count(&pool[1]) == 1, 11);
    vassert(Arc::strong_count(&pool[2]) == 1, 12);
    cover(1);
}

/// the same for `Option<Arc>` with None / the null pointer as `current` and as `new`
#[no_mangle]
pub extern "C" fn c05_forms_option() {
    let pool: [Option<Arc<u64>>; 3] = [Some(Arc::new(100)), Some(Arc::new(101)), None];
    let cur = nondet(1) as usize;
    let x = nondet(2) as usize;
    let k = nondet(3) as usize;
    let form = nondet(4);
    assume(cur < 3 && x < 3 && k < 3 && form < 2);
    let c = ArcSwapOption::new(pool[cur].clone());
    let new = pool[k].clone();
    let raw = |o: &Option<Arc<u64>>| -> *const u64 {
        match o {
            Some(a) => Arc::as_ptr(a),
            None => core::ptr::null(),
        }
    };
    let prev = if form == 0 { c.compare_and_swap(&pool[x], new) } else { c.compare_and_swap(raw(&pool[x]), new) };
    vassert(raw(&prev) == raw(&pool[cur]), 1);
    let now = c.load_full();
    vassert(raw(&now) == raw(&pool[if x == cur { k } else { cur }]), 3);
    drop(now);
    drop(prev);
    drop(c);
    vassert(Arc::strong_count(pool[0].as_ref().unwrap()) == 1, 10);
    vassert(Arc::strong_count(pool[1].as_ref().unwrap()) == 1, 11);
    cover(1);
}

// ------------------------------------------------------------------------------------ C16

pub struct P {
    pub a: u64,
    pub b: u64,
}

#[inline(always)]
fn run_c16(steps: u32) {
    let pool: [Arc<P>; 3] =
        [Arc::new(P { a: 100, b: 200 }), Arc::new(P { a: 101, b: 201 }), Arc::new(P { a: 102, b: 202 })];
    let shared = ArcSwap::new(pool[0].clone());
    let mut c1 = Cache::new(&shared);
    let mut c2 = c1.clone();
    let mut mc = Cache::new(&shared).map(|p: &Arc<P>| &p.b);
    // model: what is stored, what each cache holds (a freshly made cache holds the current value)
    let mut cur = 0usize;
    let mut held = [0usize; 3];
    let mut step = 0;
    while step < steps {
        let op = nondet(10 + step * 2);
        let k = nondet(11 + step * 2) as usize;
        assume(op < 4 && k < 3);
        match op {
            0 => {
                shared.store(pool[k].clone());
                cur = k;
            }
            1 => {
                let v = c1.load();
                vassert(Arc::ptr_eq(v, &pool[cur]), 1);
                held[0] = cur;
            }
            2 => {
                let v = c2.load();
                vassert(Arc::ptr_eq(v, &pool[cur]), 2);
                held[1] = cur;
            }
            _ => {
                let b = *CacheAccess::load(&mut mc);
                vassert(b == 200 + cur as u64, 3);
                held[2] = cur;
            }
        }
        // each cache keeps exactly one reference, to the value it last returned; nothing else leaks
        for i in 0..3 {
            let mut want = 1 + (cur == i) as usize;
            for h in held.iter() {
                want += (*h == i) as usize;
            }
            vassert(Arc::strong_count(&pool[i]) == want, 4 + i as u32);
        }
        step += 1;
    }
    cover(1);
}

#[no_mangle]
pub extern "C" fn c16_seq_3() {
    run_c16(3);
}
#[no_mangle]
pub extern "C" fn c16_seq_4() {
    run_c16(4);
}
#[no_mangle]
pub extern "C" fn c16_seq_5() {
    run_c16(5);
}

/// Cache over an `ArcSwapOption` including None and A-B-A
#[no_mangle]
pub extern "C" fn c16_option() {
    let pool: [Option<Arc<u64>>; 3] = [Some(Arc::new(1)), Some(Arc::new(2)), None];
    let shared = ArcSwapOption::new(pool[0].clone());
    let mut c = Cache::new(&shared);
    let raw = |o: &Option<Arc<u64>>| -> *const u64 {
        match o {
            Some(a) => Arc::as_ptr(a),
            None => core::ptr::null(),
        }
    };
    let mut step = 0;
    let mut cur = 0usize;
    while step < 4 {
        let k = nondet(20 + step) as usize;
        assume(k < 3);
        shared.store(pool[k].clone());
        cur = k;
        let do_load = nondet(30 + step);
        assume(do_load < 2);
        if do_load == 1 {
            vassert(raw(c.load()) == raw(&pool[cur]), 1);
        }
        step += 1;
    }
    vassert(raw(c.load()) == raw(&pool[cur]), 2);
    cover(1);
}

// ------------------------------------------------------------------------------------ C17

pub struct Inner {
    pub v: u64,
    pub w: u64,
}
pub struct Outer {
    pub inner: Inner,
    pub z: u64,
}

fn mk(i: u64) -> Arc<Outer> {
    Arc::new(Outer { inner: Inner { v: 10 + i, w: 20 + i }, z: 30 + i })
}

/// Projection guards taken through several Access forms; stores before, between and during
/// their lifetime; each guard keeps showing the projection of the snapshot it was created from.
#[no_mangle]
pub extern "C" fn c17_access() {
    let pool: [Arc<Outer>; 3] = [mk(0), mk(1), mk(2)];
    let shared = Arc::new(ArcSwap::new(pool[0].clone()));
    let m1 = Map::new(&*shared, |o: &Outer| &o.inner);
    let m2 = Map::new(&m1, |i: &Inner| &i.v);
    let mz = Map::new(shared.clone(), |o: &Outer| &o.z);
    let dynz: Box<dyn DynAccess<u64>> = Box::new(Map::new(shared.clone(), |o: &Outer| &o.z));
    let konst = Constant(77u64);

    let k1 = nondet(1) as usize;
    let k2 = nondet(2) as usize;
    let which = nondet(3);
    assume(k1 < 3 && k2 < 3 && which < 4);
    shared.store(pool[k1].clone());
    // guards of the snapshot k1
    let g_direct = Access::<Arc<Outer>>::load(&*shared);
    let g_inner = Access::load(&m1);
    let g_v = Access::load(&m2);
    let g_z = Access::load(&mz);
    let g_dyn = DynAccess::load(&*dynz);
    let g_k = Access::load(&konst);
    // a store DURING the lifetime of the guards
    shared.store(pool[k2].clone());
    vassert(g_direct.z == 30 + k1 as u64, 1);
    vassert(g_inner.w == 20 + k1 as u64, 2);
    vassert(*g_v == 10 + k1 as u64, 3);
    vassert(*g_z == 30 + k1 as u64, 4);
    vassert(*g_dyn == 30 + k1 as u64, 5);
    vassert(*g_k == 77, 6);
    // a load started after the completed store projects the new value; dyn == static
    vassert(*Access::load(&m2) == 10 + k2 as u64, 7);
    vassert(*DynAccess::load(&*dynz) == *Access::load(&mz), 8);
    vassert(*DynAccess::load(&*dynz) == 30 + k2 as u64, 9);
    // the snapshot is kept alive by any one of the guards alone
    match which {
        0 => {
            drop((g_direct, g_inner, g_v, g_z));
            vassert(*g_dyn == 30 + k1 as u64, 10);
            drop(g_dyn);
        }
        1 => {
            drop((g_direct, g_inner, g_z, g_dyn));
            vassert(*g_v == 10 + k1 as u64, 11);
            drop(g_v);
        }
        2 => {
            drop((g_direct, g_v, g_z, g_dyn));
            vassert(g_inner.v == 10 + k1 as u64, 12);
            drop(g_inner);
        }
        _ => {
            drop((g_inner, g_v, g_z, g_dyn));
            vassert(g_direct.inner.v == 10 + k1 as u64, 13);
            drop(g_direct);
        }
    }
    drop(g_k);
    drop(dynz);
    drop(mz);
    drop(m2);
    drop(m1);
    let last = Arc::try_unwrap(shared).ok().unwrap().into_inner();
    vassert(Arc::ptr_eq(&last, &pool[k2]), 14);
    drop(last);
    vassert(Arc::strong_count(&pool[0]) == 1, 20);
    vassert(Arc::strong_count(&pool[1]) == 1, 21);
    vassert(Arc::strong_count(&pool[2]) == 1, 22);
    cover(1);
}

/// guard promoted/kept while the container goes away (C10, sequential part)
#[no_mangle]
pub extern "C" fn c10_seq_container_drop() {
    let pool: [Arc<u64>; 2] = [Arc::new(1), Arc::new(2)];
    let c = ArcSwap::new(pool[0].clone());
    let n = nondet(1) as usize;
    assume(n <= 10);
    let mut gs: [Option<Guard<Arc<u64>>>; 10] = [None, None, None, None, None, None, None, None, None, None];
    let mut i = 0;
    while i < n {
        gs[i] = Some(c.load());
        i += 1;
    }
    let how = nondet(2);
    assume(how < 3);
    match how {
        0 => c.store(pool[1].clone()),
        1 => drop(c),
        _ => {
            let v = c.into_inner();
            vassert(Arc::ptr_eq(&v, &pool[0]), 1);
        }
    }
    let mut i = 0;
    while i < 10 {
        if let Some(g) = gs[i].take() {
            vassert(**g == 1, 2);
            drop(g);
        }
        i += 1;
    }
    if how == 0 {
        // container still alive here only in this branch; nothing to do: it is dropped at scope end
    }
    cover(1);
}

/// C15 (container part): an `ArcSwapWeak` does not keep its target alive, maps the dangling weak
/// to null and back, and keeps weak counts exact.
#[cfg(feature = "weak")]
#[no_mangle]
pub extern "C" fn c15_weak_container() {
    use arc_swap::ArcSwapWeak;
    use std::sync::Weak;
    let t1 = Arc::new(1u64);
    let t2 = Arc::new(2u64);
    let c = ArcSwapWeak::new(Arc::downgrade(&t1));
    vassert(Arc::weak_count(&t1) == 1 && Arc::strong_count(&t1) == 1, 1);
    let g = c.load();
    vassert(g.upgrade().map(|a| *a) == Some(1), 2);
    drop(g);
    // dropping the target: the container does not keep it alive
    drop(t1);
    let dead = c.load_full();
    vassert(dead.upgrade().is_none(), 3);
    vassert(dead.strong_count() == 0, 4);
    // replace a dead weak, the dangling one, a live one (symbolic choice)
    let k = nondet(1);
    assume(k < 3);
    let new: Weak<u64> = match k {
        0 => Weak::new(),
        1 => Arc::downgrade(&t2),
        _ => dead.clone(),
    };
    let old = c.swap(new);
    vassert(Weak::ptr_eq(&old, &dead), 5);
    drop(old);
    drop(dead);
    let now = c.load_full();
    vassert(now.upgrade().is_some() == (k == 1), 6);
    drop(now);
    vassert(Arc::weak_count(&t2) == (k == 1) as usize, 7);
    drop(c);
    vassert(Arc::weak_count(&t2) == 0 && Arc::strong_count(&t2) == 1, 8);
    cover(1);
}

// ------------------------------------------------------------------------------------ C10 / C11

/// C10/C11: guards created on thread 1 survive the exit of thread 1, the re-use of its
/// bookkeeping by a new thread, being dropped on another thread, and the container going away.
#[no_mangle]
pub extern "C" fn c10_seq_threads() {
    // the container is the ONLY owner of its values: a guard that is not honoured dangles
    let c = ArcSwap::from_pointee(1u64);
    let first = Arc::as_ptr(&c.load_full()) as usize;
    on_thread(2, || drop(c.load())); // thread 2 owns a node of its own from the start
    let n = nondet(1) as usize;
    assume(n <= 10);
    let mut gs: [Option<Guard<Arc<u64>>>; 10] = [None, None, None, None, None, None, None, None, None, None];
    on_thread(1, || {
        let mut i = 0;
        while i < n {
            gs[i] = Some(c.load());
            i += 1;
        }
    });
    let order = nondet(2);
    assume(order < 4);
    // the creating thread exits while its guards live on
    thread_exit(1);
    if order & 1 == 1 {
        // a newly started thread re-claims the bookkeeping of thread 1 (first use of the crate)
        on_thread(3, || {
            let g = c.load();
            vassert(**g == 1, 1);
        });
    }
    if order & 2 == 2 {
        // the value is replaced by a thread that owns another node
        on_thread(2, || c.store(Arc::new(2)));
    }
    // the guards are dropped on thread 2, in reverse order; each still denotes the very same live value
    on_thread(2, || {
        let mut i = 10;
        while i > 0 {
            i -= 1;
            if let Some(g) = gs[i].take() {
                vassert(**g == 1 && Arc::as_ptr(&g) as usize == first, 2);
                drop(g);
            }
        }
    });
    vassert(slots_all_empty(), 3);
    let last = c.into_inner();
    vassert(*last == if order & 2 == 2 { 2 } else { 1 }, 4);
    vassert(Arc::strong_count(&last) == 1, 5);
    cover(1);
}

extern "C" {
    /// number of nodes in the global list (IR: counted by the engine; native: node_snapshot().len())
    pub fn verif_node_count() -> u64;
}

/// C11: thread churn. Threads start, use the container, exit; bookkeeping is re-used: the number
/// of nodes never exceeds the peak number of threads alive at once.
#[inline(always)]
fn churn(steps: u32) {
    let c = ArcSwap::from_pointee(5u64);
    let mut alive = [false; 4];
    let mut peak = 0u64;
    let mut step = 0;
    while step < steps {
        let t = nondet(10 + step) as usize;
        let what = nondet(20 + step);
        assume(t >= 1 && t <= 3 && what < 3);
        match what {
            0 => {
                // thread t (starting if need be) reads
                on_thread(t as u32, || vassert(**c.load() == 5, 1));
                alive[t] = true;
            }
            1 => {
                // thread t writes
                on_thread(t as u32, || c.store(Arc::new(5)));
                alive[t] = true;
            }
            _ => {
                if alive[t] {
                    thread_exit(t as u32);
                    alive[t] = false;
                }
            }
        }
        let now = alive.iter().filter(|a| **a).count() as u64;
        if now > peak {
            peak = now;
        }
        vassert(unsafe { verif_node_count() } <= peak, 2);
        step += 1;
    }
    cover(1);
}
/// C11: operations executed while the thread is shutting down (thread-local storage already torn
/// down) still work, leave nothing behind and do not grow the list.
#[no_mangle]
pub extern "C" fn c11_shutdown_ops() {
    let pool: [Arc<u64>; 2] = [Arc::new(1), Arc::new(2)];
    let c = ArcSwap::new(pool[0].clone());
    on_thread(1, || drop(c.load()));
    let nodes = unsafe { verif_node_count() };
    let what = nondet(1);
    assume(what < 3);
    on_dying_thread(1, || match what {
        0 => vassert(**c.load() == 1, 1),
        1 => c.store(pool[1].clone()),
        _ => {
            let old = c.swap(pool[1].clone());
            vassert(*old == 1, 2);
        }
    });
    vassert(slots_all_empty(), 3);
    // the temporary node is the thread's old one or a re-used one: no growth
    vassert(unsafe { verif_node_count() } == nodes, 4);
    // a new thread finds everything in order and re-uses the bookkeeping
    on_thread(2, || {
        let v = c.load_full();
        vassert(*v == if what == 0 { 1 } else { 2 }, 5);
    });
    vassert(unsafe { verif_node_count() } == nodes, 6);
    drop(c);
    vassert(Arc::strong_count(&pool[0]) == 1 && Arc::strong_count(&pool[1]) == 1, 7);
    cover(1);
}

#[no_mangle]
pub extern "C" fn c11_churn_3() {
    churn(3);
}
#[no_mangle]
pub extern "C" fn c11_churn_4() {
    churn(4);
}

/// C17 across threads: a projection guard loaded on a thread that then exits keeps its snapshot
/// alive over a store made by another thread; sole ownership by the container.
#[no_mangle]
pub extern "C" fn c17_access_threads() {
    let shared = Arc::new(ArcSwap::new(mk(0)));
    on_thread(2, || drop(ArcSwap::load(&shared)));
    let depth = nondet(1);
    assume(depth < 2);
    let m1 = Map::new(&*shared, |o: &Outer| &o.inner);
    let m2 = Map::new(&m1, |i: &Inner| &i.v);
    // (a DynGuard is neither Send nor Sync, it cannot leave its thread: only the static forms here)
    let (g1, g2) = on_thread(1, || match depth {
        0 => (Some(Access::load(&m1)), None),
        _ => (None, Some(Access::load(&m2))),
    });
    thread_exit(1);
    on_thread(2, || shared.store(mk(1)));
    if let Some(g) = &g1 {
        vassert(g.v == 10 && g.w == 20, 1);
    }
    if let Some(g) = &g2 {
        vassert(**g == 10, 2);
    }
    vassert(*Access::load(&m2) == 11, 4);
    drop((g1, g2));
    vassert(slots_all_empty(), 5);
    cover(1);
}

/// C12 (sequential part): the same value stored in two containers, and twice in one, keeps every
/// count exact; operations on one container never change what the other holds.
#[no_mangle]
pub extern "C" fn c12_shared_value() {
    let pool: [Arc<u64>; 3] = [Arc::new(1), Arc::new(2), Arc::new(3)];
    let a = ArcSwap::new(pool[0].clone());
    let b = ArcSwap::new(pool[0].clone());
    let ga = a.load();
    let gb = b.load();
    let k = nondet(1) as usize;
    let which = nondet(2);
    assume(k < 3 && which < 3);
    match which {
        0 => a.store(pool[k].clone()),
        1 => {
            let old = a.swap(pool[k].clone());
            vassert(Arc::ptr_eq(&old, &pool[0]), 1);
        }
        _ => {
            let prev = a.compare_and_swap(&*gb, pool[k].clone()); // a guard of B as `current` for A
            vassert(Arc::ptr_eq(&prev, &pool[0]), 2);
        }
    }
    // B is untouched, both guards still denote the shared value
    vassert(Arc::ptr_eq(&b.load_full(), &pool[0]), 3);
    vassert(Arc::ptr_eq(&ga, &pool[0]) && Arc::ptr_eq(&gb, &pool[0]), 4);
    vassert(Arc::ptr_eq(&a.load_full(), &pool[k]), 5);
    // store the value a second time into the same container
    a.store(pool[k].clone());
    drop(ga);
    drop(gb);
    vassert(slots_all_empty(), 6);
    let mut want = [1usize; 3];
    want[0] += 1; // B
    want[k] += 1; // A
    for i in 0..3 {
        vassert(Arc::strong_count(&pool[i]) == want[i], 10 + i as u32);
    }
    drop(a);
    drop(b);
    for i in 0..3 {
        vassert(Arc::strong_count(&pool[i]) == 1, 20 + i as u32);
    }
    cover(1);
}
