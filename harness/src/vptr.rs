//! Instrumented ref-counted pointer used as the pointee handle in concurrent scenarios.
//!
//! One atomic cell per object carries the whole oracle: the object is alive iff `count != 0`;
//! `inc`/`dec`/deref of an object whose count is 0 is a use-after-free (or a double release) and
//! trips a `verif_assert`. All operations are branch-free so that they do not fork the symbolic
//! execution. Orderings mirror `Arc` (Relaxed increment, Release decrement + Acquire fence).
use arc_swap::RefCnt;
use core::cell::UnsafeCell;
use core::sync::atomic::{fence, Ordering::*};

use crate::rt::*;

pub const POOL: usize = 4;

#[repr(C)]
pub struct Obj {
    pub count: HAtomic,
    pub payload: UnsafeCell<u64>,
}
unsafe impl Sync for Obj {}

#[allow(clippy::declare_interior_mutable_const)]
const OBJ0: Obj = Obj { count: HAtomic::new(0), payload: UnsafeCell::new(0) };
pub static OBJS: [Obj; POOL] = [OBJ0; POOL];
/// objects private to the write adversary of the C08 replay (never touched symbolically)
pub static ADV_OBJS: [Obj; 16] = [OBJ0; 16];

/// Assertion ids (100..) used by the oracle of the instrumented pointer.
pub const A_INC_ALIVE: u32 = 101;
pub const A_DEC_ALIVE: u32 = 102;
pub const A_DEREF_ALIVE: u32 = 103;
pub const A_CREATE_FRESH: u32 = 104;

/// When set (by a setup function, before any concurrency) the "destructor" scribbles over the payload
/// with a plain write: the race detector (C07) then sees a conflicting non-atomic access at destruction.
pub static SCRIBBLE: HAtomic = HAtomic::new(0);

pub struct VPtr(*const Obj);
unsafe impl Send for VPtr {}
unsafe impl Sync for VPtr {}

impl VPtr {
    /// Bring pool object `i` to life with one reference and the given payload.
    pub fn create(i: usize, payload: u64) -> VPtr {
        let o = &OBJS[i];
        vassert(o.count.peek() == 0, A_CREATE_FRESH);
        unsafe { *o.payload.get() = payload };
        o.count.store(1, Relaxed);
        VPtr(o)
    }
    /// A handle to an arbitrary static object (used by the native-only write adversary).
    pub fn adopt(o: &'static Obj, payload: u64) -> VPtr {
        unsafe { *o.payload.get() = payload };
        o.count.store(1, Relaxed);
        VPtr(o)
    }
    #[inline]
    pub fn obj(&self) -> &Obj {
        unsafe { &*self.0 }
    }
    #[inline]
    pub fn idx(&self) -> usize {
        (self.0 as usize - OBJS.as_ptr() as usize) / core::mem::size_of::<Obj>()
    }
    #[inline]
    pub fn raw(&self) -> *const Obj {
        self.0
    }
    /// Plain write of the payload through a handle the caller knows to be unique (before publishing).
    #[inline]
    pub fn set_payload(&self, v: u64) {
        unsafe { *self.obj().payload.get() = v };
    }
    /// Read the payload through the handle (a non-atomic access) checking the object is alive.
    #[inline]
    pub fn read(&self) -> u64 {
        let o = self.obj();
        vassert(o.count.load(Relaxed) != 0, A_DEREF_ALIVE);
        unsafe { *o.payload.get() }
    }
}

/// Count of pool object `i` (ungated; for oracles at quiescent points).
pub fn count_of(i: usize) -> usize {
    OBJS[i].count.peek()
}

impl Clone for VPtr {
    #[inline]
    fn clone(&self) -> VPtr {
        let prev = self.obj().count.fetch_add(1, Relaxed);
        vassert(prev != 0, A_INC_ALIVE);
        VPtr(self.0)
    }
}

impl Drop for VPtr {
    #[inline]
    fn drop(&mut self) {
        let prev = self.obj().count.fetch_sub(1, Release);
        vassert(prev != 0, A_DEC_ALIVE);
        if SCRIBBLE.peek() != 0 {
            // exactly what Arc does: only the thread that drops the last reference fences and destroys
            if prev == 1 {
                fence(Acquire);
                unsafe { *self.obj().payload.get() = 0xdead };
            }
        } else {
            fence(Acquire);
        }
    }
}

unsafe impl RefCnt for VPtr {
    type Base = Obj;
    fn into_ptr(me: VPtr) -> *mut Obj {
        let p = me.0 as *mut Obj;
        core::mem::forget(me);
        p
    }
    fn as_ptr(me: &VPtr) -> *mut Obj {
        me.0 as *mut Obj
    }
    unsafe fn from_ptr(ptr: *const Obj) -> VPtr {
        VPtr(ptr)
    }
}
