//! Instrumented ref-counted pointer used as the pointee handle in concurrent scenarios.
use arc_swap::RefCnt;
use core::cell::UnsafeCell;
use core::sync::atomic::{fence, Ordering::*};

use crate::rt::*;

pub const POOL: usize = 4;

#[repr(C)]
pub struct Obj {
    pub count: HAtomic,
    pub alive: HAtomic,
    pub destroyed: HAtomic,
    pub payload: UnsafeCell<u64>,
}
unsafe impl Sync for Obj {}

#[allow(clippy::declare_interior_mutable_const)]
const OBJ0: Obj = Obj {
    count: HAtomic::new(0),
    alive: HAtomic::new(0),
    destroyed: HAtomic::new(0),
    payload: UnsafeCell::new(0),
};
pub static OBJS: [Obj; POOL] = [OBJ0; POOL];

/// Assertion ids (100..) used by the oracle of the instrumented pointer.
pub const A_INC_ALIVE: u32 = 101;
pub const A_DEC_ALIVE: u32 = 102;
pub const A_DEREF_ALIVE: u32 = 103;
pub const A_CREATE_FRESH: u32 = 104;
pub const A_PAYLOAD: u32 = 105;
pub const A_DEC_POS: u32 = 106;

pub struct VPtr(*const Obj);
unsafe impl Send for VPtr {}
unsafe impl Sync for VPtr {}

impl VPtr {
    /// Bring pool object `i` to life with one reference and the given payload.
    pub fn create(i: usize, payload: u64) -> VPtr {
        let o = &OBJS[i];
        vassert(o.alive.load(Relaxed) == 0, A_CREATE_FRESH);
        unsafe { *o.payload.get() = payload };
        o.count.store(1, Relaxed);
        o.alive.store(1, Relaxed);
        VPtr(o)
    }
    #[inline]
    pub fn obj(&self) -> &Obj {
        unsafe { &*self.0 }
    }
    pub fn idx(&self) -> usize {
        (self.0 as usize - OBJS.as_ptr() as usize) / core::mem::size_of::<Obj>()
    }
    pub fn raw(&self) -> *const Obj {
        self.0
    }
    /// Read the payload through the handle (a non-atomic access) checking it is alive.
    pub fn read(&self) -> u64 {
        let o = self.obj();
        vassert(o.alive.load(Relaxed) == 1, A_DEREF_ALIVE);
        unsafe { *o.payload.get() }
    }
}

impl Clone for VPtr {
    #[inline]
    fn clone(&self) -> VPtr {
        let o = self.obj();
        vassert(o.alive.load(Relaxed) == 1, A_INC_ALIVE);
        o.count.fetch_add(1, Relaxed);
        VPtr(self.0)
    }
}

impl Drop for VPtr {
    #[inline]
    fn drop(&mut self) {
        let o = self.obj();
        vassert(o.alive.load(Relaxed) == 1, A_DEC_ALIVE);
        let prev = o.count.fetch_sub(1, Release);
        vassert(prev != 0, A_DEC_POS);
        if prev == 1 {
            fence(Acquire);
            // destructor: scribble over the payload (a non-atomic write), mark dead
            unsafe { *o.payload.get() = 0xdead };
            o.alive.store(0, Relaxed);
            o.destroyed.fetch_add(1, Relaxed);
        }
    }
}

unsafe impl RefCnt for VPtr {
    type Base = Obj;
    fn into_ptr(me: VPtr) -> *mut Obj {
        let p = me.0 as *mut Obj;
        core::mem::forget(me);
        p
    }
    fn as_ptr(me: &VPtr) -> *mut Obj {
        me.0 as *mut Obj
    }
    unsafe fn from_ptr(ptr: *const Obj) -> VPtr {
        VPtr(ptr)
    }
}
