"""C19: thread-safety markers. The fact base is the compiler's own: rustdoc JSON of /repo's current tree
lists every Send/Sync impl, including the *synthesized* auto-trait impls with their where-clauses. They
are turned into a derivability formula over the auto traits of the type parameters and z3 is asked for
an instantiation under which a wrapper is Send/Sync while the pointer it stores is not (or the converse:
everything thread safe, wrapper not). A model is mapped to concrete types and compiled with rustc against
the crate; the verdict of rustc confirms (or refutes) the counterexample."""
import json
import os
import subprocess
import time

import z3

import build
from runner import Violation, Inconclusive

RD_TARGET = os.path.join(build.BUILD, 'rustdoc')


def rustdoc_json():
    env = dict(os.environ)
    env['CARGO_NET_OFFLINE'] = 'true'
    env.pop('RUSTFLAGS', None)
    cmd = ['cargo', '+nightly', 'rustdoc', '--offline', '--lib', '--features', 'weak,internal-test-strategies',
           '--manifest-path', '/repo/Cargo.toml', '--target-dir', RD_TARGET, '--',
           '-Zunstable-options', '--output-format', 'json', '--document-private-items', '--document-hidden-items']
    r = subprocess.run(cmd, env=env, stdout=subprocess.PIPE, stderr=subprocess.STDOUT, text=True)
    path = os.path.join(RD_TARGET, 'doc', 'arc_swap.json')
    if r.returncode != 0 or not os.path.exists(path):
        raise Inconclusive('rustdoc JSON generation failed:\n' + r.stdout[-2000:])
    return json.load(open(path))


# (Send(T), Sync(T), Send(Base), Sync(Base)) of pointer kinds the trait accepts, with a concrete spelling
POINTERS = [
    ((1, 1, 1, 1), 'std::sync::Arc<u8>'),
    ((0, 0, 1, 1), 'std::rc::Rc<u8>'),
    ((0, 0, 1, 0), 'std::sync::Arc<std::cell::Cell<u8>>'),
    ((0, 0, 0, 0), 'std::sync::Arc<std::rc::Rc<u8>>'),
    ((0, 0, 0, 1), "std::sync::Arc<std::sync::MutexGuard<'static, u8>>"),
]


class Solver:
    def __init__(self, doc):
        self.doc = doc
        self.idx = doc['index']
        self.impls = {'Send': {}, 'Sync': {}}      # type id -> [impl]
        self.trait_impls = {}                      # (trait name, type id) -> [impl]
        self.by_name = {}
        for k, it in self.idx.items():
            inner = it['inner']
            if it.get('name'):
                self.by_name.setdefault(it['name'], []).append(it)
            if 'impl' not in inner:
                continue
            im = inner['impl']
            tr = im.get('trait')
            if not tr:
                continue
            tname = tr.get('path')
            f = im['for']
            tid = f.get('resolved_path', {}).get('id') if isinstance(f, dict) else None
            if tname in ('Send', 'Sync') and tid is not None:
                self.impls[tname].setdefault(tid, []).append(im)
            if tid is not None:
                self.trait_impls.setdefault((tname.split('::')[-1], tid), []).append(im)
        self.vars = {}
        self.used_impls = []
        self.unknown = []

    def var(self, K, name):
        key = '%s(%s)' % (K, name)
        if key not in self.vars:
            self.vars[key] = z3.Bool(key)
        return self.vars[key]

    # ---- substitution
    def subst(self, ty, sub):
        if not isinstance(ty, dict):
            return ty
        if 'generic' in ty:
            return sub.get(ty['generic'], ty)
        out = {}
        for k, v in ty.items():
            if isinstance(v, dict):
                out[k] = self.subst_any(v, sub)
            elif isinstance(v, list):
                out[k] = [self.subst_any(x, sub) for x in v]
            else:
                out[k] = v
        return out

    def subst_any(self, v, sub):
        if isinstance(v, dict):
            if 'generic' in v and len(v) == 1:
                return sub.get(v['generic'], v)
            return {k: self.subst_any(x, sub) for k, x in v.items()}
        if isinstance(v, list):
            return [self.subst_any(x, sub) for x in v]
        return v

    @staticmethod
    def targs(rp):
        a = rp.get('args')
        if not a or 'angle_bracketed' not in a:
            return []
        return [x['type'] for x in a['angle_bracketed']['args'] if 'type' in x]

    def show(self, ty):
        if 'generic' in ty:
            return ty['generic']
        if 'resolved_path' in ty:
            rp = ty['resolved_path']
            a = self.targs(rp)
            return rp['path'].split('::')[-1] + ('<%s>' % ', '.join(self.show(x) for x in a) if a else '')
        if 'qualified_path' in ty:
            q = ty['qualified_path']
            return '<%s as %s>::%s' % (self.show(q['self_type']), (q.get('trait') or {}).get('path', '?'), q['name'])
        if 'borrowed_ref' in ty:
            return '&' + self.show(ty['borrowed_ref']['type'])
        if 'primitive' in ty:
            return ty['primitive']
        return json.dumps(ty)[:60]

    # ---- derivability of  ty: K
    def holds(self, K, ty, depth=0):
        if depth > 12:
            raise Inconclusive('auto-trait derivation too deep')
        if 'generic' in ty:
            return self.var(K, ty['generic'])
        if 'primitive' in ty:
            return z3.BoolVal(True)
        if 'tuple' in ty:
            return z3.And(*[self.holds(K, t, depth + 1) for t in ty['tuple']]) if ty['tuple'] else z3.BoolVal(True)
        if 'borrowed_ref' in ty:
            b = ty['borrowed_ref']
            inner = b['type']
            if b.get('is_mutable'):
                return self.holds(K, inner, depth + 1)
            return self.holds('Sync', inner, depth + 1)
        if 'raw_pointer' in ty:
            return z3.BoolVal(False)
        if 'function_pointer' in ty:
            return z3.BoolVal(True)
        if 'dyn_trait' in ty:
            names = [t['trait']['path'].split('::')[-1] for t in ty['dyn_trait'].get('traits', [])]
            return z3.BoolVal(K in names)
        if 'qualified_path' in ty:
            r = self.resolve_projection(ty['qualified_path'])
            if r is not None:
                return self.holds(K, r, depth + 1)
            q = ty['qualified_path']
            if q.get('name') == 'Base' and 'generic' in q.get('self_type', {}):
                return self.var(K, '<%s as RefCnt>::Base' % q['self_type']['generic'])
            return self.var(K, self.show(ty))
        if 'resolved_path' in ty:
            rp = ty['resolved_path']
            tid = rp['id']
            args = self.targs(rp)
            name = rp['path'].split('::')[-1]
            if str(tid) in self.idx and 'struct' in self.idx[str(tid)]['inner'] or str(tid) in self.idx and 'enum' in self.idx[str(tid)]['inner']:
                cands = self.impls[K].get(tid, [])
                opts = []
                if not cands and not self.impls['Send'].get(tid) and not self.impls['Sync'].get(tid):
                    # rustdoc lists no auto-trait impl at all (doc(hidden) type): auto traits are structural,
                    # derive from the fields
                    return self.structural(K, self.idx[str(tid)], args, depth)
                for im in cands:
                    if im.get('is_negative'):
                        continue
                    fargs = self.targs(im['for']['resolved_path'])
                    sub = {}
                    ok = True
                    for fa, aa in zip(fargs, args):
                        if 'generic' in fa:
                            sub[fa['generic']] = aa
                        else:
                            ok = False       # specialised impl head: not needed for this crate
                    if not ok:
                        self.unknown.append('impl head of %s is not generic' % name)
                        continue
                    conj = []
                    g = im['generics']
                    for p in g.get('params', []):
                        kind = p.get('kind', {})
                        if 'type' in kind:
                            for b in kind['type'].get('bounds', []):
                                tb = b.get('trait_bound')
                                if tb and tb['trait']['path'] in ('Send', 'Sync') and tb.get('modifier', 'none') == 'none':
                                    conj.append(self.holds(tb['trait']['path'], sub.get(p['name'], {'generic': p['name']}), depth + 1))
                    for wp in g.get('where_predicates', []):
                        bp = wp.get('bound_predicate')
                        if not bp:
                            continue
                        pty = self.subst_any(bp['type'], sub)
                        for b in bp.get('bounds', []):
                            tb = b.get('trait_bound')
                            if tb and tb['trait']['path'] in ('Send', 'Sync') and tb.get('modifier', 'none') == 'none':
                                conj.append(self.holds(tb['trait']['path'], pty, depth + 1))
                    self.used_impls.append('%simpl %s for %s where %s' % (
                        'synthesized ' if im.get('is_synthetic') else 'unsafe ' if im.get('is_unsafe') else '', K, self.show(im['for']),
                        ' + '.join(str(c) for c in conj) or 'true'))
                    opts.append(z3.And(*conj) if conj else z3.BoolVal(True))
                return z3.Or(*opts) if opts else z3.BoolVal(False)
            return self.std(K, name, args, depth)
        self.unknown.append('type form ' + json.dumps(ty)[:80])
        return z3.BoolVal(False)

    def structural(self, K, item, args, depth):
        inner = item['inner']
        if 'struct' not in inner:
            self.unknown.append('structural derivation for non-struct %s' % item.get('name'))
            return z3.BoolVal(False)
        st = inner['struct']
        params = [p['name'] for p in st['generics']['params'] if 'type' in p.get('kind', {})]
        sub = dict(zip(params, args))
        kind = st['kind']
        if 'plain' in kind:
            fids = kind['plain']['fields']
        elif 'tuple' in kind:
            fids = [f for f in kind['tuple'] if f is not None]
        else:
            fids = []
        conj = []
        for fid in fids:
            f = self.idx.get(str(fid))
            if not f:
                self.unknown.append('field %s of %s not documented' % (fid, item.get('name')))
                continue
            fty = f['inner'].get('struct_field')
            conj.append(self.holds(K, self.subst_any(fty, sub), depth + 1))
        self.used_impls.append('structural %s for %s (fields)' % (K, item.get('name')))
        return z3.And(*conj) if conj else z3.BoolVal(True)

    def std(self, K, name, args, depth):
        h = lambda k, t: self.holds(k, t, depth + 1)
        if name == 'Arc' or name == 'Weak' and False:
            return z3.And(h('Send', args[0]), h('Sync', args[0]))
        if name in ('Rc',):
            return z3.BoolVal(False)
        if name in ('Option', 'ManuallyDrop', 'Box', 'MaybeUninit', 'Vec', 'UnsafeCell' if K == 'Send' else '_', 'Cell' if K == 'Send' else '_', 'OnceCell' if K == 'Send' else '_'):
            return h(K, args[0]) if args else z3.BoolVal(True)
        if name in ('Cell', 'UnsafeCell', 'OnceCell', 'RefCell'):
            return z3.BoolVal(False) if K == 'Sync' else (h('Send', args[0]) if args else z3.BoolVal(True))
        if name == 'PhantomData':
            return h(K, args[0]) if args else z3.BoolVal(True)
        if name in ('AtomicPtr', 'AtomicUsize', 'AtomicBool'):
            return z3.BoolVal(True)
        if name == 'RwLock' or name == 'Mutex':
            if K == 'Send':
                return h('Send', args[0]) if args else z3.BoolVal(True)
            return z3.And(h('Send', args[0]), h('Sync', args[0])) if name == 'RwLock' and args else (h('Send', args[0]) if args else z3.BoolVal(True))
        if name == 'Iter':
            return h('Sync', args[0]) if args else z3.BoolVal(True)
        self.unknown.append('std type %s' % name)
        return self.var(K, name)

    def resolve_projection(self, q):
        st = q['self_type']
        tr = (q.get('trait') or {}).get('path', '').split('::')[-1]
        if 'resolved_path' not in st:
            return None
        tid = st['resolved_path']['id']
        args = self.targs(st['resolved_path'])
        for im in self.trait_impls.get((tr, tid), []):
            fargs = self.targs(im['for']['resolved_path'])
            sub = {}
            for fa, aa in zip(fargs, args):
                if 'generic' in fa:
                    sub[fa['generic']] = aa
            # trait's own type args, e.g. InnerStrategy<T>
            targs_impl = self.targs(im['trait'])
            targs_use = self.targs(q.get('trait') or {})
            for fa, aa in zip(targs_impl, targs_use):
                if 'generic' in fa:
                    sub[fa['generic']] = aa
            for iid in im.get('items', []):
                it = self.idx.get(str(iid))
                if it and it.get('name') == q['name'] and 'assoc_type' in it['inner']:
                    t = it['inner']['assoc_type'].get('type')
                    if t:
                        return self.subst_any(t, sub)
        return None


def local_type(s, name):
    for it in s.by_name.get(name, []):
        if 'struct' in it['inner'] or 'enum' in it['inner']:
            return it
    raise Inconclusive('type %s not found in rustdoc JSON' % name)


def path_of(s, name, args):
    it = local_type(s, name)
    return {'resolved_path': {'path': name, 'id': it['id'],
                              'args': {'angle_bracketed': {'args': [{'type': a} for a in args], 'constraints': []}}}}


G = lambda n: {'generic': n}


def wrappers(s):
    """(label, type expression, pointer parameter whose auto trait must be implied, rust spelling template)"""
    hyb = path_of(s, 'HybridStrategy', [path_of(s, 'DefaultConfig', [])])
    out = []
    for sname, S, sspell in (('DefaultStrategy', hyb, 'arc_swap::DefaultStrategy'),):
        out.append(('ArcSwapAny<T,%s>' % sname, path_of(s, 'ArcSwapAny', [G('T'), S]), 'T', 'arc_swap::ArcSwapAny<{T}, %s>' % sspell))
        out.append(('Guard<T,%s>' % sname, path_of(s, 'Guard', [G('T'), S]), 'T', 'arc_swap::Guard<{T}, %s>' % sspell))
        asw = path_of(s, 'ArcSwapAny', [G('T'), S])
        ref = {'borrowed_ref': {'lifetime': "'static", 'is_mutable': False, 'type': asw}}
        out.append(('Cache<&ArcSwapAny<T>,T>', path_of(s, 'Cache', [ref, G('T')]), 'T',
                    "arc_swap::cache::Cache<&'static arc_swap::ArcSwapAny<{T}, %s>, {T}>" % sspell))
        out.append(('MapCache<&ArcSwapAny<T>,T,fn>', path_of(s, 'MapCache', [ref, G('T'), {'function_pointer': {}}]), 'T',
                    "arc_swap::cache::MapCache<&'static arc_swap::ArcSwapAny<{T}, %s>, {T}, fn(&{T}) -> &u8>" % sspell))
        guard = path_of(s, 'Guard', [G('T'), S])
        out.append(('MapGuard<Guard<T>,fn,..>', path_of(s, 'MapGuard', [guard, {'function_pointer': {}}, {'primitive': 'u8'}, {'primitive': 'u8'}]), 'T',
                    'arc_swap::access::MapGuard<arc_swap::Guard<{T}, %s>, fn(&u8) -> &u8, u8, u8>' % sspell))
        out.append(('Map<ArcSwapAny<T>,..>', path_of(s, 'Map', [asw, {'primitive': 'u8'}, {'function_pointer': {}}]), 'T',
                    'arc_swap::access::Map<arc_swap::ArcSwapAny<{T}, %s>, u8, fn(&u8) -> &u8>' % sspell))
    return out


def check(ctx):
    t0 = time.time()
    doc = rustdoc_json()
    violations = []
    inconclusive = []
    samples = []
    nq = 0
    nimpl = 0
    s0 = Solver(doc)
    for label, ty, ptr, spell in wrappers(s0):
        for K in ('Send', 'Sync'):
            s = Solver(doc)
            E = s.holds(K, ty)
            nimpl += len(s.used_impls)
            vs = [s.var('Send', 'T'), s.var('Sync', 'T'), s.var('Send', '<T as RefCnt>::Base'), s.var('Sync', '<T as RefCnt>::Base')]
            real = z3.Or(*[z3.And(*[v if b else z3.Not(v) for v, b in zip(vs, bits)]) for bits, _ in POINTERS])
            if s.unknown:
                inconclusive.append('%s: %s: unmodelled %s' % (label, K, sorted(set(s.unknown))))
            # (1) wrapper is K although the pointer is not
            z = z3.Solver()
            z.add(real, E, z3.Not(s.var(K, ptr)))
            r = z.check()
            nq += 1
            samples.append({'wrapper': label, 'trait': K, 'derivable_iff': str(z3.simplify(E))[:300], 'unsound_instantiation': str(r)})
            if r == z3.sat:
                m = z.model()
                bits = tuple(int(z3.is_true(m.eval(v, model_completion=True))) for v in vs)
                conc = dict(POINTERS)[bits]
                violations.append(make_violation(label, K, spell.replace('{T}', conc), True, conc, s.used_impls))
            # (2) everything thread safe, wrapper is not
            z = z3.Solver()
            z.add(*vs)
            z.add(z3.Not(E))
            r = z.check()
            nq += 1
            if r == z3.sat:
                violations.append(make_violation(label, K, spell.replace('{T}', POINTERS[0][1]), False, POINTERS[0][1], s.used_impls))
    # DynGuard must never be Send/Sync (it may box a guard of a non thread safe pointer)
    for K in ('Send', 'Sync'):
        s = Solver(doc)
        E = s.holds(K, path_of(s, 'DynGuard', [{'primitive': 'u8'}]))
        z = z3.Solver()
        z.add(E)
        nq += 1
        if z.check() == z3.sat:
            violations.append(make_violation('DynGuard<u8>', K, 'arc_swap::access::DynGuard<u8>', True, '-', s.used_impls))
    return {'scenario': 'auto-trait derivations', 'mode': 'E3', 'violations': violations, 'inconclusive': inconclusive,
            'paths': len(samples), 'events': 0, 'instrs': nimpl, 'queries': nq, 'solver_s': round(time.time() - t0, 2),
            'obligations': nq, 'covered': [], 'missing_covers': [], 'statuses': {}, 'sample': samples[:4], 'all_samples': samples}


def make_violation(label, K, spelled, must_reject, conc, used):
    msg = ('%s is %s for the pointer type %s which is not (rustc accepts the instantiation)' % (label, K, conc)) if must_reject else \
          ('%s is not %s although every parameter is thread safe' % (label, K))
    v = Violation('autotrait', 'marker', '%s:%s:%s' % (label, K, 'unsound' if must_reject else 'too-strict'), msg)
    v.where = '; '.join(used[-4:])

    def custom_replay(path, spelled=spelled, K=K, must_reject=must_reject):
        d = os.path.join(build.BUILD, 'c19-replay')
        os.makedirs(os.path.join(d, 'src'), exist_ok=True)
        open(os.path.join(d, 'Cargo.toml'), 'w').write(
            '[package]\nname = "c19r"\nversion = "0.1.0"\nedition = "2021"\n[dependencies]\n'
            'arc-swap = { path = "/repo", features = ["weak", "internal-test-strategies"] }\n[workspace]\n')
        src = '#![allow(deprecated)]\nfn is<X: %s>() {}\npub fn probe() { is::<%s>(); }\n' % (K, spelled)
        open(os.path.join(d, 'src', 'lib.rs'), 'w').write(src)
        env = dict(os.environ)
        env['CARGO_NET_OFFLINE'] = 'true'
        env.pop('RUSTFLAGS', None)
        r = subprocess.run(['cargo', 'check', '--offline', '--manifest-path', os.path.join(d, 'Cargo.toml'),
                            '--target-dir', os.path.join(build.BUILD, 'c19-replay-target')],
                           env=env, stdout=subprocess.PIPE, stderr=subprocess.STDOUT, text=True)
        accepted = r.returncode == 0
        os.makedirs(os.path.dirname(path), exist_ok=True)
        open(path, 'w').write('# generated probe\n%s\n# rustc %s it\n%s\n' % (src, 'ACCEPTS' if accepted else 'REJECTS', r.stdout[-1500:]))
        return (accepted if must_reject else not accepted), r.stdout[-1500:]
    v.custom_replay = custom_replay
    return v
