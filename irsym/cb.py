"""M1c: context-bounded interleaving of a concurrent scenario (same specs as conc.py) by forking symbolic
execution with *concrete* shared memory.

The threads of the scenario are coroutines of one symbolic state. Immediately before every atomic step that
passes the native gate (crate atomics, harness HAtomic cells) the running thread either goes on or is preempted
in favour of any other unfinished thread; the choice is a fresh symbolic scheduling variable constrained in the
path condition, the number of preemptions on a path is bounded by K (switches when a thread's body has
returned are free). Scenario inputs (verif_nondet) stay symbolic and fork where the code branches on them, as in
the sequential scenarios. Every assertion / panic / engine error reached on a path is decided by z3 under the
path condition; the thread-id sequence of the gated steps of a violating path is the schedule replayed against
the natively compiled crate (mode conc of vh-native).

What this is not: it does not cover schedules with more than K preemptions (conc.py covers all SC interleavings
of the scenarios it can finish), and like every other concurrent check here it is sequentially consistent.
"""
import os
import time

import z3

import exec as ex
import conc
from runner import Inconclusive, nondet_inputs


def run_cb(sess, spec, K=2, loop_bound=3, timeout_s=1800, max_paths=3000000, scenario=None, first_only=True):
    scenario = scenario or (spec.get('name') + '@cb%d' % K)
    t0 = time.time()
    eng = sess.engine(loop_bound=loop_bound, max_paths=max_paths)
    eng.auto_merge = False
    eng.log_all_atomics = True
    st = eng.initial_state()

    def seq(fn, state, thread):
        leaves = eng.explore(fn, state, thread=thread)
        done = [l for l in leaves if l.status == 'done']
        if len(leaves) != 1 or len(done) != 1 or done[0].oblig:
            raise Inconclusive('sequential prefix %s did not run to a single clean completion: %s' % (
                fn, [(l.status, [o.msg for o in l.oblig]) for l in leaves]))
        s = done[0]
        s.events = []
        s.pc = []
        s.po = 0
        return s
    if spec.get('setup'):
        st = seq(spec['setup'], st, 0)
    nthreads = len(spec['threads'])
    for i, (pre, body) in enumerate(spec['threads']):
        if pre:
            st = seq(pre, st, i + 1)
    base = st
    base.marks = []
    base.covers = {}
    eng.env = ex.Env()
    bodies = {}
    for i, (_, body) in enumerate(spec['threads']):
        fn = eng.functions.get(body)
        if fn is None:
            raise ex.Unsupported('entry function %s not found' % body)
        bodies[i + 1] = fn
    work = []
    sw0 = ex.fresh('sw', 8)
    after = {int(k): int(v) for k, v in spec.get('after', {}).items()}   # thread k is started once thread v has finished
    for first in sorted(bodies):
        if first in after:
            continue
        s = base.fork()
        s.stacks = {t: [ex.Frame(bodies[t])] for t in bodies if t != first and t not in after}
        s.cb_pending = {t: (after[t], bodies[t]) for t in after}
        s.frames = [ex.Frame(bodies[first])]
        s.thread = first
        s.cb_budget = K
        s.cb_skip = True
        s.status = 'running'
        s.nsteps = 0
        s.pc = [sw0 == first]
        s.phase = 'threads'
        work.append(s)
    final = spec.get('final')
    violations = []
    inconclusive = []
    covered = set()
    statuses = {}
    nob = 0
    paths = 0
    max_sw = 0
    seen_keys = set()
    sample = None
    while work:
        if time.time() - t0 > timeout_s:
            inconclusive.append('time budget of %ds exhausted after %d schedules' % (timeout_s, paths))
            break
        s = work.pop()
        phase = getattr(s, 'phase', 'threads')
        try:
            site, forks = eng.run(s)
        except ex.EngineError as e:
            eng.oblige(s, 'engine', None, e.kind, None, e.msg)
            s.status = 'engine-error'
            forks = None
        if forks:
            for f_ in forks:
                f_.phase = phase
                f_.nforks += 1
            work.extend(forks)
            continue
        if s.status == 'done' and phase == 'threads' and final:
            # every thread has finished: the final function judges the outcome on thread 0
            s.stacks = None
            fr = ex.Frame(eng.functions[final])
            s.frames = [fr]
            s.thread = 0
            s.status = 'running'
            s.phase = 'final'
            s.n_thread_events = len(s.events)
            work.append(s)
            continue
        paths += 1
        eng.stats['paths'] += 1
        statuses[s.status] = statuses.get(s.status, 0) + 1
        max_sw = max(max_sw, s.cb_switches)
        for c in s.covers:
            covered.add(c)
        if paths > max_paths:
            inconclusive.append('more than %d schedules' % max_paths)
            break
        if sample is None and s.status == 'done':
            sample = {'scenario': scenario, 'one_explored_schedule_thread_ids': schedule_of(eng, s)[:80]}
        for ob in s.oblig:
            nob += 1
            if ob.kind == 'bound':
                inconclusive.append(ob.msg)
                continue
            extra = None if ob.cond is None else z3.Not(ob.cond)
            sv = eng.solver
            eng._sync(list(ob.guard))
            sv.push()
            if extra is not None:
                sv.add(extra)
            r = sv.check()
            eng.nqueries += 1
            m = sv.model() if r == z3.sat else None
            sv.pop()
            if r == z3.sat:
                key = (ob.kind, str(ob.ident))
                if key in seen_keys:
                    continue
                seen_keys.add(key)
                violations.append(make_violation(eng, spec, scenario, s, ob, m))
            elif r == z3.unknown:
                inconclusive.append('solver unknown on obligation %s' % ob.msg)
        if violations and first_only:
            break
    missing = [c for c in spec.get('covers', []) if c not in covered] if not violations else []
    return {'scenario': scenario, 'mode': 'M1c context-bounded (K=%d preemptions)' % K, 'violations': violations,
            'inconclusive': inconclusive[:5], 'paths': paths, 'statuses': statuses, 'obligations': nob,
            'covered': sorted(covered), 'missing_covers': missing, 'instrs': eng.stats['instrs'],
            'queries': eng.nqueries, 'solver_s': eng.solver_time, 'explore_s': time.time() - t0,
            'threads': nthreads, 'max_context_switches_seen': max_sw, 'sample': sample, 'engine': eng,
            'events': 0}


def schedule_of(eng, s):
    n = getattr(s, 'n_thread_events', len(s.events))
    return [e.thread for e in s.events[:n] if e.thread != 0 and conc.gated(eng, e)]


def make_violation(eng, spec, scenario, s, ob, m):
    nondet = {}
    for mk in s.marks:
        if mk[0] == 'nondet':
            th = mk[4] if len(mk) > 4 else 0
            nondet.setdefault(th, []).append((mk[1], m.eval(mk[2], model_completion=True).as_long()))
    sched = schedule_of(eng, s)
    v = conc.ConcViolation(scenario, ob.kind, ob.ident, ob.msg, inputs={'nondet': {str(k): x for k, x in nondet.items()}},
                           thread=ob.thread, where=eng.loc(ob.ins), schedule=sched, spec=spec, nondet=nondet)
    v.trace = ['t%d %s %s@%#x r=%s w=%s %s' % (e.thread, e.kind, e.ordering or 'na', e.addr or 0, e.rval, e.wval,
                                                  eng.loc(e.ins).split(' <- ')[0]) for e in s.events
               if e.kind in ('R', 'W', 'U', 'C') and conc.gated(eng, e)]
    return v
