"""M1c: context-bounded interleaving of a concurrent scenario (same specs as conc.py) by forking symbolic
execution with *concrete* shared memory.

The threads of the scenario are coroutines of one symbolic state. Immediately before every atomic step that
passes the native gate (crate atomics, harness HAtomic cells) the running thread either goes on or is preempted
in favour of any other unfinished thread; the choice is a fresh symbolic scheduling variable constrained in the
path condition, the number of preemptions on a path is bounded by K (switches when a thread's body has
returned are free). Scenario inputs (verif_nondet) stay symbolic and fork where the code branches on them, as in
the sequential scenarios. Every assertion / panic / engine error reached on a path is decided by z3 under the
path condition; the thread-id sequence of the gated steps of a violating path is the schedule replayed against
the natively compiled crate (mode conc of vh-native).

What this is not: it does not cover schedules with more than K preemptions (conc.py covers all SC interleavings
of the scenarios it can finish), and like every other concurrent check here it is sequentially consistent.
"""
import os
import time

import z3

import exec as ex
import conc
import replay as rp
from runner import Inconclusive, nondet_inputs


def run_cb(sess, spec, K=2, loop_bound=3, timeout_s=1800, max_paths=3000000, scenario=None, first_only=True,
           flavor='rel', features=(), validate=True, subject=None):
    """subject=tid (freeze mode, C09): thread tid is not scheduled with the others; at every gated step of the others
    (and whenever one of them finishes) the execution forks into 'every unfinished thread is suspended for ever here,
    the subject runs alone'. The subject exceeding a loop bound or reaching a blocking call is the violation."""
    scenario = scenario or (spec.get('name') + ('@cb%d' % K if subject is None else '@frz%d' % K) + ('f' if spec.get('focus') else ''))
    t0 = time.time()
    eng = sess.engine(loop_bound=loop_bound, max_paths=max_paths)
    eng.auto_merge = False
    eng.log_all_atomics = True
    eng.cb_focus = tuple(spec['focus']) if spec.get('focus') else None
    st = eng.initial_state()

    def seq(fn, state, thread):
        leaves = eng.explore(fn, state, thread=thread)
        done = [l for l in leaves if l.status == 'done']
        if len(leaves) != 1 or len(done) != 1 or done[0].oblig:
            raise Inconclusive('sequential prefix %s did not run to a single clean completion: %s' % (
                fn, [(l.status, [o.msg for o in l.oblig]) for l in leaves]))
        s = done[0]
        s.events = []
        s.pc = []
        s.po = 0
        return s
    if spec.get('setup'):
        st = seq(spec['setup'], st, 0)
    nthreads = len(spec['threads'])
    for i, (pre, body) in enumerate(spec['threads']):
        if pre:
            st = seq(pre, st, i + 1)
    base = st
    base.marks = []
    base.covers = {}
    eng.env = ex.Env()
    bodies = {}
    for i, (_, body) in enumerate(spec['threads']):
        fn = eng.functions.get(body)
        if fn is None:
            raise ex.Unsupported('entry function %s not found' % body)
        bodies[i + 1] = fn
    work = []
    sw0 = ex.fresh('sw', 8)
    after = {int(k): int(v) for k, v in spec.get('after', {}).items()}   # thread k is started once thread v has finished
    for first in sorted(bodies):
        if first in after or first == subject:
            continue
        s = base.fork()
        s.stacks = {t: [ex.Frame(bodies[t])] for t in bodies if t != first and t not in after and t != subject}
        if subject is not None:
            s.cb_subject = (subject, bodies[subject])
        s.cb_pending = {t: (after[t], bodies[t]) for t in after}
        s.frames = [ex.Frame(bodies[first])]
        s.thread = first
        s.cb_budget = K
        s.cb_skip = True
        s.status = 'running'
        s.nsteps = 0
        s.pc = [sw0 == first]
        s.phase = 'threads'
        work.append(s)
    final = spec.get('final')
    deadline = t0 + timeout_s
    acc = new_acc()
    nproc = int(os.environ.get('IRSYM_CB_PROCS', '16'))
    if nproc > 1:
        base_instrs = eng.stats['instrs']
        _steal_dfs(eng, spec, scenario, final, work, deadline, first_only, acc, nproc)
        eng.stats['instrs'] = base_instrs + acc['instrs']
        work = []
    else:
        _dfs(eng, spec, scenario, final, work, deadline, first_only, acc)
    violations = []
    seen = set()
    for d in acc['violations']:
        if (d['kind'], d['ident']) in seen:
            continue
        seen.add((d['kind'], d['ident']))
        nd = {int(k): [tuple(x) for x in v] for k, v in d['nondet'].items()}
        v = conc.ConcViolation(scenario, d['kind'], d['ident'], d['msg'], inputs={'nondet': {str(k): x for k, x in nd.items()}},
                               thread=d['thread'], where=d['where'], schedule=d['schedule'], spec=spec, nondet=nd)
        v.trace = d['trace']
        if d.get('frozen') is not None:
            v.freeze = d['frozen']
            v.subject_thread = d.get('subject', subject)
        violations.append(v)
    tv_ok = 0
    tv_problem = None
    if validate and not violations and acc['sample'] and acc['sample'].get('log') is not None:
        tv_ok, tv_problem = validate_sample(spec, scenario, acc['sample'], flavor, features)
        if tv_problem:
            acc['inconclusive'].append(tv_problem)
    covered = acc['covered']
    missing = [c for c in spec.get('covers', []) if c not in covered] if not violations else []
    return {'scenario': scenario, 'mode': 'M1c context-bounded (K=%d preemptions)' % K, 'violations': violations,
            'inconclusive': sorted(set(acc['inconclusive']))[:5], 'paths': acc['paths'], 'statuses': acc['statuses'],
            'obligations': acc['nob'], 'covered': sorted(covered), 'missing_covers': missing,
            'instrs': eng.stats['instrs'], 'queries': eng.nqueries + acc['queries'], 'solver_s': eng.solver_time,
            'explore_s': time.time() - t0, 'threads': nthreads, 'max_context_switches_seen': acc['max_sw'],
            'sample': {k: v for k, v in (acc['sample'] or {}).items() if k != 'log'} or None, 'engine': eng, 'events': 0,
            'worker_processes': nproc, 'nontrivial': acc['paths'], 'traces_validated': tv_ok}


_CTX = None


def new_acc():
    return {'violations': [], 'inconclusive': [], 'covered': set(), 'statuses': {}, 'nob': 0, 'paths': 0, 'max_sw': 0,
            'sample': None, 'instrs': 0, 'queries': 0}


def merge_acc(a, b):
    a['violations'] += b['violations']
    a['inconclusive'] += b['inconclusive']
    a['covered'] |= b['covered']
    for k, v in b['statuses'].items():
        a['statuses'][k] = a['statuses'].get(k, 0) + v
    a['nob'] += b['nob']
    a['paths'] += b['paths']
    a['max_sw'] = max(a['max_sw'], b['max_sw'])
    a['instrs'] += b['instrs']
    a['queries'] += b['queries']
    if b['sample'] is not None and (a['sample'] is None or b['sample']['switches'] > a['sample']['switches']):
        a['sample'] = b['sample']


def _steal_dfs(eng, spec, scenario, final, work, deadline, first_only, acc, nproc):
    """Depth-first exploration spread over up to nproc processes by work splitting: a process that has at least two
    pending states while fewer than nproc processes are busy forks a child and hands it the older half of its stack
    (the bigger subtrees). States hold z3 terms and cannot be sent between processes, a fork copies them for free;
    results (plain dicts) come back through a queue."""
    import multiprocessing as mp
    ctx = mp.get_context('fork')
    active = ctx.Value('i', 1)
    launched = ctx.Value('i', 0)
    stop = ctx.Value('i', 0)
    q = ctx.Queue()

    def run(work, acc):
        i0 = eng.stats['instrs']
        q0 = eng.nqueries
        kids = []
        while work and not stop.value:
            _dfs(eng, spec, scenario, final, work, deadline, first_only, acc, budget=48, widen=4 * nproc)
            if acc['violations'] and first_only:
                stop.value = 1
                break
            if len(work) >= 2 and active.value < nproc:
                go = False
                with active.get_lock():
                    if active.value < nproc:
                        active.value += 1
                        go = True
                if go:
                    with launched.get_lock():
                        launched.value += 1
                    pid = os.fork()
                    if pid == 0:
                        child(work[0::2])
                    kids.append(pid)
                    del work[0::2]
        acc['instrs'] += eng.stats['instrs'] - i0
        acc['queries'] += eng.nqueries - q0
        for pid in kids:
            try:
                os.waitpid(pid, os.WNOHANG)
            except OSError:
                pass

    def child(w):
        res = new_acc()
        t_ = time.time()
        n_ = len(w)
        try:
            run(w, res)
            if os.environ.get('IRSYM_CB_DEBUG'):
                print('child %d: got %d states, did %d paths in %.1fs, active=%d' % (os.getpid(), n_, res['paths'], time.time() - t_, active.value), flush=True)
        except BaseException as e:     # Unsupported etc.: the parent must hear about it
            res['inconclusive'].append('%s: %s' % (type(e).__name__, str(e)[:300]))
        try:
            q.put(res)
            q.close()
            q.join_thread()
        finally:
            with active.get_lock():
                active.value -= 1
            os._exit(0)

    try:
        # the root only collects (a worker blocks on its result until somebody reads it)
        launched.value = 1
        if os.fork() == 0:
            child(work)
        got = 0
        while got < launched.value:
            try:
                res = q.get(timeout=max(5.0, deadline - time.time() + 30))
            except Exception:
                acc['inconclusive'].append('a worker process did not report back')
                break
            merge_acc(acc, res)
            got += 1
            if acc['violations'] and first_only:
                stop.value = 1
    finally:
        stop.value = 1
    try:
        while os.waitpid(-1, os.WNOHANG)[0]:
            pass
    except OSError:
        pass


def _dfs(eng, spec, scenario, final, work, deadline, first_only, acc, stop_at=None, bfs=False, budget=None, widen=0):
    """Explore the states in `work` (modified in place). With stop_at: return as soon as that many states are
    pending (the caller distributes them)."""
    deferred = []
    while True:
        if not work or (stop_at is not None and len(work) + len(deferred) >= stop_at):
            work.extend(deferred)
            return
        if budget is not None:
            budget -= 1
            if budget < 0:
                return
        if time.time() > deadline:
            acc['inconclusive'].append('time budget exhausted')
            del work[:]
            return
        # widen: while few states are pending take the oldest (biggest subtree) first, so that there is something to share
        s = work.pop(0) if (bfs or len(work) < widen) else work.pop()
        if bfs and s.cb_frozen is not None and s.status == 'running':
            # freeze mode: the solo run of the subject is a leaf task; leave it to the workers
            deferred.append(s)
            continue
        phase = getattr(s, 'phase', 'threads')
        try:
            site, forks = eng.run(s)
        except ex.EngineError as e:
            eng.oblige(s, 'engine', None, e.kind, None, e.msg)
            s.status = 'engine-error'
            forks = None
        if forks:
            for f_ in forks:
                f_.phase = phase
                # a scheduling decision is not a data-dependent fork: it must not make concrete loops look symbolic
                if not getattr(f_, 'sched_fork', False):
                    f_.nforks += 1
                f_.sched_fork = False
            work.extend(forks)
            continue
        if s.status == 'done' and phase == 'threads' and final:
            # every thread has finished: the final function judges the outcome on thread 0
            s.stacks = None
            s.frames = [ex.Frame(eng.functions[final])]
            s.thread = 0
            s.status = 'running'
            s.phase = 'final'
            s.n_thread_events = len(s.events)
            work.append(s)
            continue
        acc['paths'] += 1
        acc['statuses'][s.status] = acc['statuses'].get(s.status, 0) + 1
        acc['max_sw'] = max(acc['max_sw'], s.cb_switches)
        for c in s.covers:
            acc['covered'].add(c)
        if s.status == 'done' and (acc['sample'] is None or s.cb_switches > acc['sample']['switches']):
            sched = schedule_of(eng, s)
            acc['sample'] = {'scenario': scenario, 'switches': s.cb_switches, 'one_explored_schedule_thread_ids': sched[:80],
                             'schedule': sched, 'log': event_log(eng, s), 'frozen': s.cb_frozen, 'subject': s.thread if s.cb_frozen is not None else None}
        if spec.get('hb') and s.status == 'done':
            for e1, e2 in hb_races(eng, s):
                acc['nob'] += 1
                d = {'kind': 'race', 'ident': 'race:%#x' % (e1.addr or 0),
                     'msg': 'data race: %s by thread %d at %s and %s by thread %d at %s are not ordered by happens-before' % (
                         'write' if e1.kind != 'R' else 'read', e1.thread, eng.loc(e1.ins).split(' <- ')[0],
                         'write' if e2.kind != 'R' else 'read', e2.thread, eng.loc(e2.ins).split(' <- ')[0]),
                     'thread': e2.thread, 'where': eng.loc(e2.ins), 'schedule': schedule_of(eng, s), 'nondet': {},
                     'trace': [], 'frozen': None}
                acc['violations'].append(d)
        for ob in s.oblig:
            acc['nob'] += 1
            spin = ob.kind == 'blocking' or str(ob.ident).startswith('spin:')
            if ob.kind in ('bound', 'blocking') and ob.thread == s.thread and s.thread != 0 and (
                    s.cb_frozen is not None or (spec.get('hang_is_violation') and spin and s.stacks is not None)):
                # freeze mode: the subject, running alone, does not finish. Otherwise (hang_is_violation): the running
                # thread went round a loop on concrete memory with no other thread moving - it is waiting for one of the
                # suspended threads; confirmed natively by suspending those for ever at this point.
                d = violation_dict(eng, s, ob, None)
                if s.cb_frozen is None:
                    d['frozen'] = sorted(s.stacks)
                    d['subject'] = s.thread
                d['kind'] = 'hang'
                d['msg'] = 'running alone with threads %s suspended for ever, the operation does not finish: %s' % (d['frozen'], ob.msg)
                acc['violations'].append(d)
                continue
            if ob.kind == 'bound':
                acc['inconclusive'].append(ob.msg)
                continue
            extra = None if ob.cond is None else z3.Not(ob.cond)
            sv = eng.solver
            eng._sync(list(ob.guard))
            sv.push()
            if extra is not None:
                sv.add(extra)
            r = sv.check()
            eng.nqueries += 1
            m = sv.model() if r == z3.sat else None
            sv.pop()
            if r == z3.sat:
                acc['violations'].append(violation_dict(eng, s, ob, m))
            elif r == z3.unknown:
                acc['inconclusive'].append('solver unknown on obligation %s' % ob.msg)
        if acc['violations'] and first_only:
            del work[:]
            return


def violation_dict(eng, s, ob, m):
    nondet = {}
    for mk in (s.marks if m is not None else ()):
        if mk[0] == 'nondet':
            th = mk[4] if len(mk) > 4 else 0
            nondet.setdefault(th, []).append((mk[1], m.eval(mk[2], model_completion=True).as_long()))
    trace = ['t%d %s %s@%#x r=%s w=%s %s' % (e.thread, e.kind, e.ordering or 'na', e.addr or 0, e.rval, e.wval,
                                              eng.loc(e.ins).split(' <- ')[0]) for e in s.events
             if e.kind in ('R', 'W', 'U', 'C') and conc.gated(eng, e)]
    return {'kind': ob.kind, 'ident': str(ob.ident), 'msg': str(ob.msg), 'thread': ob.thread, 'where': eng.loc(ob.ins),
            'schedule': schedule_of(eng, s), 'nondet': nondet, 'trace': [str(x) for x in trace][-400:], 'frozen': s.cb_frozen}


def schedule_of(eng, s):
    n = getattr(s, 'n_thread_events', len(s.events))
    return [e.thread for e in s.events[:n] if e.thread != 0 and conc.gated(eng, e)]




KIND = {'R': 'Load', 'W': 'Store'}
RMW = {'xchg': 'Swap', 'add': 'Add', 'sub': 'Sub'}


def event_log(eng, s):
    """The gated atomic steps of the threads of a finished path as (thread, op, addr, read, written), or None when a
    value is not concrete."""
    out = []
    n = getattr(s, 'n_thread_events', len(s.events))
    for e in s.events[:n]:
        if e.thread == 0 or not conc.gated(eng, e):
            continue
        fr0 = next((f for f in eng.loc(e.ins).split(' <- ') if not f.startswith('library/core/src/sync/atomic.rs')), '')
        if not fr0.startswith('src/'):
            continue        # harness cells pass the gate but are not traced natively
        if e.kind in ('R', 'W'):
            k = KIND[e.kind]
        elif e.kind == 'U':
            k = RMW.get(e.info[0] if isinstance(e.info, tuple) else e.info, 'Rmw')
        else:
            k = 'Cas'
        r = e.rval if e.kind != 'W' else None
        w = e.wval if e.kind in ('W', 'U') else (e.wval if (e.kind == 'C' and e.succ == 1) else None)
        for x in (e.addr, r, w):
            if x is not None and not isinstance(x, int):
                return None
        out.append((e.thread, k, e.addr, r, w))
    return out


def validate_sample(spec, scenario, sample, flavor, features):
    """Translator validation for the concurrent mode: the explored schedule with the most context switches is run
    against the natively compiled crate (hooks ON, threads gated by that schedule); the native trace of atomic
    operations must equal the engine's, thread by thread and step by step, modulo a renaming of addresses."""
    import re
    import tv
    path = os.path.join(rp.REPLAY_DIR, 'tvcb_%s.replay' % scenario.replace('@', '_'))
    rp.write_replay(path, 'conc', [b for (_, b) in spec['threads']], schedule=sample['schedule'], setup=spec.get('setup'),
                    final=spec.get('final'), comment='translator validation of %s' % scenario, flavor=flavor, features=features)
    with open(path, 'a') as f:
        for i, (pre, _) in enumerate(spec['threads']):
            if pre:
                f.write('pre %d %s\n' % (i + 1, pre))
        if sample.get('frozen'):
            f.write('freeze %s\n' % ' '.join(str(t) for t in sample['frozen']))
            f.write('subject %d\n' % sample['subject'])
    res = rp.run_native(path, trace=True)
    if not res['done'] or res['stuck'] or res['assert_fails'] or res['panics']:
        return 0, 'cb translator validation: native run of an explored schedule of %s did not complete cleanly: %s' % (
            scenario, (res['out'] or '')[-300:])
    nat = []
    for m in re.finditer(r'^TRACE t=(-?\d+) (\w+) addr=(0x[0-9a-f]+) read=(0x[0-9a-f]+) written=(0x[0-9a-f]+)', res['out'], re.M):
        t, op, addr, rd, wr = m.groups()
        t = int(t)
        if t < 1:
            continue
        rd, wr = int(rd, 16), int(wr, 16)
        nat.append((t, op, int(addr, 16), None if op == 'Store' else rd, None if wr == 0xffffffffffffffff else wr))
    eng_log = sample['log']
    ce = tv.canon([(k, a, r, w) for (_, k, a, r, w) in eng_log])
    cn = tv.canon([(k, a, r, w) for (_, k, a, r, w) in nat])
    te = [t for (t, _, _, _, _) in eng_log]
    tn = [t for (t, _, _, _, _) in nat]
    n = len(ce)
    if len(cn) < n or len(cn) > n + 12:
        return 0, 'cb translator validation: %s: engine logged %d gated steps, native %d' % (scenario, n, len(cn))
    for i in range(n):
        if ce[i] != cn[i] or te[i] != tn[i]:
            return 0, 'cb translator validation: %s: step %d differs: engine t%d %s, native t%d %s' % (
                scenario, i, te[i], ce[i], tn[i], cn[i])
    return 1, None


# ---------------------------------------------------------------------------------------------------------------
# C07 on explored schedules: C11 happens-before by vector clocks over the concrete event sequence of a path

REL = ('release', 'acq_rel', 'seq_cst')
ACQ = ('acquire', 'acq_rel', 'seq_cst')


def _join(a, b):
    if not b:
        return a
    for k, v in b.items():
        if a.get(k, 0) < v:
            a[k] = v
    return a


def hb_races(eng, s, limit=1):
    """The events of a finished path are one sequentially consistent execution. Recompute C11 happens-before on it
    (release/acquire and SeqCst accesses synchronise when the read takes its value from the write or from a release
    sequence continued by read-modify-writes; release and acquire fences; program order) and report conflicting
    accesses to a shared location, at least one of them non-atomic, that are not ordered by it. Everything before the
    thread bodies (setup, prologues) happens-before every body. Returns [(e1, e2)]."""
    n = getattr(s, 'n_thread_events', len(s.events))
    C = {}          # thread -> vector clock
    pending = {}    # thread -> join of the message clocks seen by its relaxed reads (folded in by an acquire fence)
    relf = {}       # thread -> its clock at its last release fence
    msg = {}        # atomic cell -> message clock of the release sequence its current value belongs to
    lastw = {}      # cell -> (thread, epoch, event) of the last write
    reads = {}      # cell -> {thread: (epoch, event)} reads since the last write
    out = []

    def clock(t):
        c = C.get(t)
        if c is None:
            c = C[t] = {t: 1}
        return c

    def ordered(prev, t):
        pt, pe, _ = prev
        return pt == t or clock(t).get(pt, 0) >= pe

    for e in s.events[:n]:
        t = e.thread
        if t == 0:
            continue
        c = clock(t)
        c[t] = c.get(t, 0) + 1
        k = e.kind
        if k == 'F':
            if e.ordering in ACQ:
                _join(c, pending.get(t))
            if e.ordering in REL:
                relf[t] = dict(c)
            continue
        if k not in ('R', 'W', 'U', 'C') or e.addr is None or not isinstance(e.addr, int):
            continue
        a = e.addr
        is_read = k in ('R', 'U', 'C')
        is_write = k in ('W', 'U') or (k == 'C' and e.succ == 1)
        if e.atomic:
            if k == 'C':
                o_read = e.ordering if e.succ == 1 else (e.info[0] if isinstance(e.info, tuple) else 'monotonic')
            else:
                o_read = e.ordering
            m = msg.get(a)
            if is_read and m:
                if o_read in ACQ:
                    _join(c, m)
                else:
                    pending[t] = _join(pending.get(t, {}), m)
            if is_write:
                if e.ordering in REL:
                    nm = dict(c)
                else:
                    nm = dict(relf.get(t, {}))
                if k in ('U', 'C') and m:
                    _join(nm, m)        # a read-modify-write continues the release sequence it read from
                msg[a] = nm
        # conflicts (per byte range would be more precise; cells here are accessed with one size throughout)
        lw = lastw.get(a)
        if is_read and not is_write:
            if lw is not None and not (e.atomic and lw[2].atomic) and not ordered(lw, t):
                out.append((lw[2], e))
            reads.setdefault(a, {})[t] = (c[t], e)
        if is_write:
            if lw is not None and not (e.atomic and lw[2].atomic) and not ordered(lw, t):
                out.append((lw[2], e))
            for rt, (re_, rev) in reads.get(a, {}).items():
                if rt != t and not (e.atomic and rev.atomic) and c.get(rt, 0) < re_:
                    out.append((rev, e))
            lastw[a] = (t, c[t], e)
            reads[a] = {}
        if len(out) >= limit:
            break
    return out
