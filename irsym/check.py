"""Entry point: ./check <ID> [--tier quick|thorough] [--replay file]

exit 0: property held on everything explored (KNOWN-FINDING lines for listed open findings)
exit 1: VIOLATION property=<id> replay=<path>   (found by the solver AND reproduced natively)
exit 2: inconclusive / broken harness / unconfirmed counterexample
"""
import json
import os
import sys
import time
import traceback

sys.path.insert(0, os.path.dirname(os.path.abspath(__file__)))
import build
import llparse
import models
import replay as rp
import runner

ROOT = build.ROOT


def load_known():
    p = os.path.join(ROOT, 'known_findings.json')
    if not os.path.exists(p):
        return []
    return json.load(open(p)).get('findings', [])


class Ctx:
    """Collects what a property check did, for the evidence file."""

    def __init__(self, pid, tier, seed):
        self.pid = pid
        self.tier = tier
        self.seed = seed
        self.results = []
        self.sessions = {}
        self.t0 = time.time()
        self.notes = []
        self.bounds = {}
        self.outside = []
        self.level = 'model_checking'
        self.traces_validated = 0
        self.extra = {}

    def session(self, flavor='rel', features=()):
        key = (flavor, tuple(features))
        if key not in self.sessions:
            self.sessions[key] = runner.Session(flavor, features)
        return self.sessions[key]

    def add(self, res):
        self.results.append(res)
        return res


def finding_key(v):
    return v.key()


def main(argv):
    import props
    if len(argv) < 1:
        print(__doc__)
        return 2
    pid = argv[0]
    tier = os.environ.get('VERIF_TIER', 'quick')
    replay_file = None
    i = 1
    while i < len(argv):
        if argv[i] == '--tier':
            tier = argv[i + 1]
            i += 2
        elif argv[i] == '--replay':
            replay_file = argv[i + 1]
            i += 2
        else:
            i += 1
    seed = int(os.environ.get('VERIF_SEED', '0') or 0)
    if replay_file:
        r = rp.run_native(replay_file, trace=True)
        print(r['out'])
        bad = bool(r['panics'] or r['assert_fails'] or r['crashed'] or r['hung'])
        print('REPLAY %s' % ('reproduces a failure' if bad else 'runs clean'))
        return 1 if bad else 0
    if pid not in props.PROPS:
        print('unknown or not-applicable property %s' % pid)
        return 2
    ctx = Ctx(pid, tier, seed)
    status = 0
    err = None
    try:
        if pid != 'C19' and not os.environ.get('VERIF_SKIP_TV'):
            # translator validation first: if the engine and the native build disagree on what the code does,
            # nothing the engine says below could be believed
            import tv
            corpus = tv.CORPUS[:2] if tier == 'quick' else tv.CORPUS
            okn, problems = tv.validate(ctx.session('rel'), corpus)
            ctx.traces_validated = okn
            if problems:
                raise runner.Inconclusive('translator validation failed: ' + '; '.join(problems)[:600])
        props.PROPS[pid](ctx)
    except (llparse.Unsupported, runner.Inconclusive, RuntimeError) as e:
        err = '%s: %s' % (type(e).__name__, e)
        traceback.print_exc()
        status = 2
    # ---- triage
    known = load_known()
    violations = []
    inconclusive = []
    for res in ctx.results:
        violations.extend(res.get('violations', []))
        inconclusive.extend('%s: %s' % (res.get('scenario'), m) for m in res.get('inconclusive', []))
        for c in res.get('missing_covers', []):
            inconclusive.append('%s: declared reachability witness %s is unreachable (vacuous harness?)' % (res.get('scenario'), c))
    reported = 0
    seen = set()
    lines = []
    for v in violations:
        k = finding_key(v)
        if k in seen:
            continue
        seen.add(k)
        kf = [f for f in known if f.get('property') == pid and f.get('status') == 'open' and f.get('key') == k]
        # replay natively before reporting
        rpath = os.path.join(rp.REPLAY_DIR, '%s_%s_%d.replay' % (pid, v.scenario.replace(':', '_'), len(seen)))
        if getattr(v, 'kani_harness', None):
            import kani_check
            ok, log, scratch = kani_check.playback(v.kani_harness)
            os.makedirs(rp.REPLAY_DIR, exist_ok=True)
            open(rpath, 'w').write('# kani concrete playback of %s\n# scratch crate: %s\n%s\n' % (v.kani_harness, scratch, log))
            nat = {'out': log}
        elif getattr(v, 'custom_replay', None):
            ok, log = v.custom_replay(rpath)
            nat = {'out': log}
        else:
            v.write_replay(rpath) if hasattr(v, 'write_replay') else default_replay(v, rpath)
            try:
                nat = rp.run_native(rpath)
                ok = rp.reproduces(v, nat)
            except Exception as e:   # build failure etc.
                nat = {'out': str(e)}
                ok = False
        v.native = {'reproduced': ok, 'summary': (nat.get('out') or '')[-600:]}
        if not ok:
            inconclusive.append('UNCONFIRMED counterexample for %s (%s) did not reproduce natively; replay=%s' % (
                v.scenario, v.msg, rpath))
            lines.append('UNCONFIRMED property=%s scenario=%s %s replay=%s' % (pid, v.scenario, v.msg, rpath))
            continue
        if kf:
            lines.append('KNOWN-FINDING: property=%s %s' % (pid, kf[0].get('what', k)))
            continue
        lines.append('VIOLATION property=%s replay=%s' % (pid, rpath))
        lines.append('  scenario=%s kind=%s ident=%s' % (v.scenario, v.kind, v.ident))
        lines.append('  %s' % v.msg)
        reported += 1
    for l in lines:
        print(l)
    if reported:
        status = 1
    elif inconclusive and status == 0:
        status = 2
    for m in inconclusive:
        print('INCONCLUSIVE: %s' % m)
    if err:
        print('ERROR: %s' % err)
    write_evidence(ctx, violations, inconclusive, reported, err)
    print('%s tier=%s: %d scenario(s), %d violation(s) reported, %d inconclusive, %.1fs -> exit %d' % (
        pid, tier, len(ctx.results), reported, len(inconclusive), time.time() - ctx.t0, status))
    return status


def default_replay(v, path):
    nd = {0: [tuple(x) for x in v.inputs.get('nondet', [])]}
    rp.write_replay(path, 'seq', [v.entry if hasattr(v, 'entry') else v.scenario], nondet=nd,
                    comment='%s\n%s' % (v.key(), v.msg), flavor=getattr(v, 'flavor', 'rel'),
                    features=getattr(v, 'features', ()))


def write_evidence(ctx, violations, inconclusive, reported, err):
    os.makedirs(os.path.join(ROOT, 'evidence'), exist_ok=True)
    states = 0
    transitions = 0
    queries = 0
    solver_s = 0.0
    samples = []
    scen = []
    fns = set()
    covers = 0
    evaluations = 0
    nontrivial = 0
    for r in ctx.results:
        evaluations += r.get('paths', 0) + r.get('smt_queries', 0)
        if r.get('nontrivial') is not None:
            nontrivial += r['nontrivial']
        elif r.get('leaves') is not None:
            nontrivial += sum(1 for l in r['leaves'] if getattr(l, 'nforks', 0) > 0)
        else:
            nontrivial += r.get('obligations', 0) + len(r.get('covered', []))
        states += r.get('paths', 0) + r.get('events', 0)
        transitions += r.get('instrs', 0)
        queries += r.get('queries', 0)
        solver_s += r.get('solver_s', 0.0)
        covers += len(r.get('covered', []))
        scen.append({k: r[k] for k in ('scenario', 'mode', 'paths', 'events', 'obligations', 'covered', 'statuses',
                                       'queries', 'solver_s', 'explore_s', 'threads', 'verdict', 'flavor', 'rounds',
                                       'smt_vars', 'smt_asserts', 'max_context_switches_seen', 'worker_processes', 'traces_validated')
                     if k in r})
        if r.get('sample') is not None and len(samples) < 6:
            samples.append(r['sample'])
    for s in ctx.sessions.values():
        fns |= s.functions_encoded
    if not samples:
        samples = [{'scenario': r.get('scenario'), 'paths': r.get('paths')} for r in ctx.results[:3]] or ['none']
    ev = {
        'property_id': ctx.pid,
        'tier': ctx.tier,
        'seed': ctx.seed,
        'level': ctx.level,
        'wall_s': round(time.time() - ctx.t0, 2),
        'violations': reported,
        'coverage': {
            'evaluations': max(evaluations, 1),
            'distinct_nontrivial': nontrivial,
            'rule': 'evaluations = symbolic execution paths explored + SMT queries discharged; non-trivial = distinct paths that '
                    'passed at least one solver-decided fork (symbolic input, panic point, op choice) for sequential scenarios, '
                    'distinct proof obligations / reachability witnesses decided over all interleavings for concurrent ones, '
                    'harnesses for Kani, derivation queries for the auto-trait check',
            'states': max(states, 1),
            'transitions': max(transitions, 1),
            'traces_validated_against_impl': ctx.traces_validated,
            'samples': samples,
            'explanation': 'states = symbolic execution-tree paths + memory events handed to the SMT encoding; '
                           'transitions = LLVM IR instructions executed symbolically',
            'scenarios': scen,
            'smt_queries': queries,
            'solver_s': round(solver_s, 2),
            'reachability_witnesses_hit': covers,
            'functions_encoded': sorted(demangle(f) for f in fns)[:400],
            'functions_encoded_count': len(fns),
            'bounds': ctx.bounds,
            'outside_the_claim': ctx.outside,
            'inconclusive': inconclusive,
            'violations_found': [v.to_json() for v in violations],
            'error': err,
        },
        'assumptions': ['environment models: ' + '; '.join(models.MODELS)] + ctx.notes,
    }
    ev['coverage'].update(ctx.extra)
    with open(os.path.join(ROOT, 'evidence', '%s.json' % ctx.pid), 'w') as f:
        json.dump(ev, f, indent=1, default=str)


def demangle(n):
    import re
    if n.startswith('_ZN'):
        out = []
        i = 3
        while i < len(n) and n[i].isdigit():
            j = i
            while n[j].isdigit():
                j += 1
            ln = int(n[i:j])
            out.append(n[j:j + ln])
            i = j + ln
        s = '::'.join(out)
        s = s.replace('$LT$', '<').replace('$GT$', '>').replace('$u20$', ' ').replace('..', '::')
        s = s.replace('$C$', ',').replace('$u7b$', '{').replace('$u7d$', '}').replace('$RF$', '&').replace('$BP$', '*')
        s = re.sub(r'::h[0-9a-f]{16}$', '', s)
        return s
    return n


if __name__ == '__main__':
    sys.exit(main(sys.argv[1:]))
