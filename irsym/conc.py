"""M2: concurrent scenarios. Per-thread symbolic extraction (exec.py, concurrent Env) iterated to a
fix-point of value domains, then an axiomatic sequential-consistency encoding (integer clocks,
reads-from with no intervening write) decided by z3. The model of the clocks is the schedule.
"""
import os
import time

import z3

import exec as ex
import replay as rp
from llparse import Unsupported
from runner import Violation, Inconclusive, nondet_inputs


class ConcViolation(Violation):
    def __init__(self, *a, **kw):
        self.spec = kw.pop('spec', None)
        self.nondet = kw.pop('nondet', {})
        Violation.__init__(self, *a, **kw)

    def write_replay(self, path):
        sp = self.spec
        rp.write_replay(path, 'conc', [b for (_, b) in sp['threads']], nondet=self.nondet, schedule=self.schedule,
                        setup=sp.get('setup'), final=sp.get('final'), comment='%s\n%s' % (self.key(), self.msg),
                        flavor=getattr(self, 'flavor', 'rel'), features=getattr(self, 'features', ()))
        with open(path, 'a') as f:
            for i, (pre, _) in enumerate(sp['threads']):
                if pre:
                    f.write('pre %d %s\n' % (i + 1, pre))
            if getattr(self, 'freeze', None):
                f.write('freeze %s\n' % ' '.join(str(t) for t in self.freeze))
                f.write('subject %d\n' % self.subject_thread)


_enum_cache = {}


def feasible_values(eng, e, limit=8):
    """Concrete values a symbolic written value can take under the event's path condition
    (None if more than `limit`)."""
    key = e.id
    if key in _enum_cache:
        return _enum_cache[key]
    s = eng.solver
    eng._sync(list(e.guard))
    s.push()
    if e.kind == 'C' and e.succ is not None and not isinstance(e.succ, int):
        s.add(ex.as_bool(e.succ))
    vals = []
    v = ex.as_bv(e.wval, e.size * 8)
    res = None
    while True:
        r = s.check()
        eng.nqueries += 1
        if r != z3.sat:
            res = vals
            break
        x = s.model().eval(v, model_completion=True).as_long()
        vals.append(x)
        if len(vals) > limit:
            res = None
            break
        s.add(v != x)
    s.pop()
    _enum_cache[key] = res
    return res


def summarize(eng, leaves):
    """addr -> (set of concrete values, top, size) over every write event of every path."""
    writes = {}
    seen = set()
    for leaf in leaves:
        for e in leaf.events:
            if e.id in seen:
                continue
            seen.add(e.id)
            if e.kind in ('W', 'U', 'C') and e.wval is not None and e.addr is not None:
                ent = writes.get(e.addr)
                if ent is None:
                    ent = writes[e.addr] = [set(), False, e.size]
                if ent[2] != e.size:
                    raise Unsupported('mixed-size writes to %#x' % e.addr)
                if e.kind == 'U' and isinstance(e.info, tuple) and e.info[0] in ('add', 'sub'):
                    # a counter: its values depend on how many times it is bumped, no finite domain is attempted
                    ent[1] = True
                elif isinstance(e.wval, int):
                    ent[0].add(e.wval)
                else:
                    vals = feasible_values(eng, e)
                    if vals is None:
                        ent[1] = True
                    else:
                        ent[0] |= set(vals)
    return writes


def heap_objs(leaves, thread):
    objs = set()
    for leaf in leaves:
        for o in leaf.objs.values():
            if o.kind == 'heap' and o.thread == thread:
                objs.add((o.base, o.size, o.name))
    return objs


def freeze(summ):
    return {a: (frozenset(v[0]), v[1], v[2]) for a, v in summ.items()}


def run_conc(sess, spec, loop_bound=6, max_rounds=8, timeout_s=600, max_spurious=1, scenario=None, extract_only=False, hb=False, subject=None):
    """spec = {'setup': fn, 'threads': [(pre_fn|None, body_fn), ...], 'final': fn|None, 'covers': [...]}"""
    scenario = scenario or spec.get('name') or '+'.join(b for _, b in spec['threads'])
    t0 = time.time()
    eng = sess.engine(loop_bound=loop_bound)
    eng.max_spurious = max_spurious
    eng.auto_merge = os.environ.get('IRSYM_NOMERGE') is None
    st = eng.initial_state()
    # --- sequential prefix: setup on thread 0, then each thread's prologue on its own thread id
    def seq(fn, state, thread):
        leaves = eng.explore(fn, state, thread=thread)
        done = [l for l in leaves if l.status == 'done']
        if len(leaves) != 1 or len(done) != 1 or done[0].oblig:
            raise Inconclusive('sequential prefix %s did not run to a single clean completion: %s' % (
                fn, [(l.status, [o.msg for o in l.oblig]) for l in leaves]))
        s = done[0]
        s.events = []
        s.pc = []
        s.po = 0
        return s
    if spec.get('setup'):
        st = seq(spec['setup'], st, 0)
    nthreads = len(spec['threads'])
    for i, (pre, body) in enumerate(spec['threads']):
        if pre:
            st = seq(pre, st, i + 1)
    base = st
    # --- fix-point extraction
    summ = {i: {} for i in range(1, nthreads + 1)}
    objs = {i: set() for i in range(1, nthreads + 1)}
    leaves = {}
    rounds = 0
    widened = set()
    env_seen = {}
    while True:
        rounds += 1
        if rounds > max_rounds:
            raise Inconclusive('value-domain fix-point not reached in %d rounds' % max_rounds)
        new_summ = {}
        new_objs = {}
        for i in range(1, nthreads + 1):
            env = ex.Env()
            env.concurrent = True
            merged = {}
            for j in range(1, nthreads + 1):
                if j == i:
                    continue
                for a, (vals, top, size) in summ[j].items():
                    ent = merged.get(a)
                    if ent is None:
                        merged[a] = [set(vals), top, size]
                    else:
                        if ent[2] != size:
                            raise Unsupported('mixed-size writes to %#x' % a)
                        ent[0] |= vals
                        ent[1] = ent[1] or top
                env.foreign_objs += sorted(objs[j])
            env.other_writes = {a: (v[0], v[1], v[2]) for a, v in merged.items()}
            envkey = (tuple(sorted((a, tuple(sorted(v[0])), v[1], v[2]) for a, v in merged.items())), tuple(env.foreign_objs))
            if env_seen.get(i) == envkey and i in leaves:
                # nothing this thread can observe changed since its last extraction: keep it
                new_summ[i] = summ[i]
                new_objs[i] = objs[i]
                continue
            env_seen[i] = envkey
            s0 = base.fork()
            s0.events = []
            s0.pc = []
            s0.po = 0
            s0.marks = []
            tx = time.time()
            lv = eng.explore(spec['threads'][i - 1][1], s0, env=env, thread=i)
            if os.environ.get('IRSYM_DEBUG'):
                print('  explore round', rounds, 'thread', i, 'paths', len(lv), 'events', sum(len(l.events) for l in lv[:1]),
                      'took %.1fs' % (time.time() - tx), 'queries', eng.nqueries, 'hits', eng.model_hits, flush=True)
            leaves[i] = lv
            new_summ[i] = summarize(eng, lv)
            new_objs[i] = heap_objs(lv, i)
        # widening: a cell whose concrete value set keeps growing (counters) becomes TOP for good
        for i in new_summ:
            for a, ent in new_summ[i].items():
                if a in widened:
                    ent[1] = True
                    ent[0] = set()
                elif rounds >= 3 and a in summ[i] and not ent[1] and len(ent[0]) > len(summ[i][a][0]) and len(ent[0]) > 40:
                    widened.add(a)
                    ent[1] = True
                    ent[0] = set()
                elif ent[1]:
                    ent[0] = set()
        if all(freeze(new_summ[i]) == freeze(summ[i]) and new_objs[i] == objs[i] for i in new_summ):
            break
        if os.environ.get('IRSYM_DEBUG'):
            for i in new_summ:
                a, b = freeze(summ[i]), freeze(new_summ[i])
                for k in sorted(set(a) | set(b)):
                    if a.get(k) != b.get(k):
                        print('round', rounds, 'thread', i, hex(k), a.get(k), '->', b.get(k))
                print('round', rounds, 'thread', i, 'paths', len(leaves[i]), 'objs', len(new_objs[i]))
        summ, objs = new_summ, new_objs
    # --- final function: runs after all threads, sees all their writes
    fin = None
    if spec.get('final'):
        env = ex.Env()
        env.concurrent = True
        merged = {}
        for j in range(1, nthreads + 1):
            for a, (vals, top, size) in summ[j].items():
                ent = merged.get(a)
                if ent is None:
                    merged[a] = [set(vals), top, size]
                else:
                    ent[0] |= vals
                    ent[1] = ent[1] or top
            env.foreign_objs += sorted(objs[j])
        env.other_writes = {a: (v[0], v[1], v[2]) for a, v in merged.items()}
        s0 = base.fork()
        s0.events = []
        s0.pc = []
        s0.po = 0
        s0.marks = []
        fin = eng.explore(spec['final'], s0, env=env, thread=0)
        leaves[0] = fin
    extract_s = time.time() - t0
    if extract_only:
        return {'engine': eng, 'base': base, 'leaves': leaves, 'rounds': rounds, 'nthreads': nthreads,
                'extract_s': extract_s, 'scenario': scenario}
    enc = Encoding(eng, base, leaves, nthreads)
    enc.hb_mode = hb
    enc.subject = subject
    res = enc.decide(spec, scenario, timeout_s)
    res.update({'scenario': scenario, 'mode': 'M2hb (SC executions, C11 happens-before)' if hb else 'M2-SC', 'threads': nthreads, 'rounds': rounds,
                'paths': sum(len(v) for v in leaves.values()), 'instrs': eng.stats['instrs'],
                'queries': eng.nqueries + res.get('smt_queries', 0), 'explore_s': round(extract_s, 2),
                'solver_s': round(eng.solver_time + res.get('smt_s', 0.0), 2), 'engine': eng})
    sess.functions_encoded |= set(eng.fn_instrs)
    return res


def gated(eng, e):
    """Is this event an atomic operation that passes the native gate (crate atomics via the hook
    wrappers, harness HAtomic)?"""
    if not e.atomic or e.kind not in ('R', 'W', 'U', 'C'):
        return False
    loc = eng.loc(e.ins)
    for fr in loc.split(' <- '):
        if fr.startswith('library/core/src/sync/atomic.rs'):
            continue
        if fr.startswith('harness/src/rt.rs'):
            return '(peek)' not in fr and '(store_ungated)' not in fr and '(slots_all_empty)' not in fr
        return fr.startswith('src/')
    return False


_ENC = None


def _check_one(idx):
    enc = _ENC
    tq = time.time()
    mode = os.environ.get('IRSYM_SOLVER', 'smt')
    if mode == 'inc':
        S = enc._S
        S.push()
        S.add(enc._viol_terms[idx])
        r = S.check()
    else:
        S = z3.Tactic(mode).solver()
        S.set('timeout', enc._timeout_ms)
        for c in enc.cons:
            S.add(c)
        S.add(enc._viol_terms[idx])
        r = S.check()
    dt = round(time.time() - tq, 2)
    payload = None
    res = 'unsat'
    if r == z3.sat:
        res = 'sat'
        o, u = enc._items[idx]
        if not (o is not None and o[2].kind == 'bound' and enc.subject is None):
            payload = enc.make_violation(S.model(), enc._spec, enc._scenario, o, u)
    elif r == z3.unknown:
        res = 'unknown'
    if mode == 'inc':
        S.pop()
    return (idx, res, dt, payload)


def parallel_check(enc, n):
    global _ENC
    _ENC = enc
    jobs = int(os.environ.get('IRSYM_JOBS', '0') or 0) or min(16, os.cpu_count() or 1)
    if n == 0:
        return {}
    if jobs <= 1 or n < 4:
        return {i: _check_one(i)[1:] for i in range(n)}
    import multiprocessing as mp
    ctx = mp.get_context('fork')
    with ctx.Pool(min(jobs, n)) as pool:
        out = pool.map(_check_one, range(n), chunksize=1)
    return {i: (r, dt, p) for (i, r, dt, p) in out}


class Encoding:
    def __init__(self, eng, base, leaves, nthreads):
        self.eng = eng
        self.base = base
        self.leaves = leaves
        self.nthreads = nthreads
        self.events = {}      # id -> Event
        self.by_addr = {}
        self.thread_events = {}
        for t, lv in leaves.items():
            for leaf in lv:
                for e in leaf.events:
                    if e.id not in self.events:
                        self.events[e.id] = e
                        self.thread_events.setdefault(t, []).append(e)
        self.clk = {}
        self.guard_cache = {}
        self.nvars = 0
        self.nasserts = 0
        self.keep_all = False
        self.hb_mode = False
        self.subject = None      # C09: thread that runs alone after all others froze
        self.cut = {}
        self.clock_bits = int(os.environ.get('IRSYM_CLOCK_BITS', '14'))

    def g(self, conds):
        key = tuple(id(c) for c in conds)
        r = self.guard_cache.get(key)
        if r is None:
            r = z3.And(*conds) if len(conds) > 1 else (conds[0] if conds else z3.BoolVal(True))
            self.guard_cache[key] = r
        return r

    def xg(self, e):
        """e is executed: its path condition holds and, for a thread that may be frozen (C09), it lies before
        that thread's freezing point."""
        ge = self.g(e.guard)
        c = self.cut.get(e.thread)
        if c is not None and e.id in self.clk:
            le = z3.ULE if self.clock_bits else (lambda a_, b_: a_ <= b_)
            return z3.And(ge, le(self.clk[e.id], c))
        return ge

    def wrote(self, e):
        ge = self.xg(e)
        if e.kind == 'C':
            s = e.succ
            if isinstance(s, int):
                return ge if s else z3.BoolVal(False)
            return z3.And(ge, ex.as_bool(s))
        return ge

    def build(self):
        eng = self.eng
        S = z3.Solver()
        cons = []
        # which addresses have cross-thread interaction?
        accessors = {}
        writers = {}
        for e in self.events.values():
            if e.addr is None or e.kind not in ('R', 'W', 'U', 'C'):
                continue
            accessors.setdefault(e.addr, set()).add(e.thread)
            if e.kind in ('W', 'U', 'C'):
                writers.setdefault(e.addr, set()).add(e.thread)
        self.contended = set()
        self.semi = set()      # touched by at most one concurrent thread, and by the final function
        for a, ths in accessors.items():
            w = writers.get(a, set())
            if len(ths) > 1 and w:
                if len(ths - {0}) >= 2:
                    self.contended.add(a)
                else:
                    self.semi.add(a)
        # sanity: a read flagged local must not be on an address written by another thread
        for e in self.events.values():
            if e.kind in ('R', 'U', 'C') and e.local and e.addr in writers and (writers[e.addr] - {e.thread, 0}):
                if True:
                    raise Inconclusive('internal: local read on address %#x written by another thread (fix-point incomplete)' % e.addr)
        # clocks: one variable per (thread, position among the *relevant* events of a path). Events in
        # mutually exclusive branches share a variable (at most one of them is executed).
        relevant = lambda e: (e.addr in self.contended and e.kind in ('R', 'W', 'U', 'C') and not
                              (e.local and e.kind == 'R')) or e.kind == 'FREE' or self.keep_all
        nth = self.nthreads + 1
        width = self.clock_bits
        self.pos = {}
        used = {}
        for e in self.events.values():
            if relevant(e):
                self.pos[e.id] = e.po
                used.setdefault(e.thread, set()).add(e.po)
        self.cvar = {}
        total = sum(len(v) for v in used.values()) + 2
        if width and total * 2 >= (1 << (width - max(1, (nth - 1).bit_length()))) - 2:
            raise Inconclusive('clock width %d too small for %d events' % (width, total))
        for t, ks in used.items():
            prev = None
            for k in sorted(ks):
                if width:
                    x = z3.BitVec('x_%d_%d' % (t, k), width)
                else:
                    x = z3.Int('x_%d_%d' % (t, k))
                self.cvar[(t, k)] = x
                if prev is not None:
                    cons.append(z3.ULT(prev, x) if width else prev < x)
                prev = x
        self.nvars = len(self.cvar)
        # threads 1..n run concurrently; thread 0 is the final function, after everything else.
        # distinctness across threads: the clock of thread t is n*x + t  (Int) / x with low bits = t (BV)
        if width:
            tb = max(1, (nth - 1).bit_length())
            for (t, k), x in self.cvar.items():
                cons.append(z3.Extract(tb - 1, 0, x) == t)
            B = z3.BitVec('barrier', width)
            self.lt = z3.ULT
        else:
            B = z3.Int('barrier')
            self.lt = lambda a, b: a < b
        for e in self.events.values():
            if e.id in self.pos:
                x = self.cvar[(e.thread, self.pos[e.id])]
                self.clk[e.id] = x if width else x * nth + e.thread
        if self.subject is not None:
            sub_first = [x for (t, k), x in sorted(self.cvar.items(), key=lambda kv: kv[0]) if t == self.subject]
            for t in used:
                if t in (0, self.subject):
                    continue
                c_ = z3.BitVec('cut_%d' % t, width) if width else z3.Int('cut_%d' % t)
                self.cut[t] = c_
                if sub_first:
                    first = sub_first[0] if width else sub_first[0] * nth + self.subject
                    cons.append(self.lt(c_, first))
        for (t, k), x in self.cvar.items():
            c = x if width else x * nth + t
            if t == 0:
                cons.append(self.lt(B, c))
            else:
                cons.append(self.lt(c, B))
                if not width:
                    cons.append(x >= 0)
        # per address: distinct clocks across threads, reads-from
        groups = {}
        for e in self.events.values():
            if e.addr in self.contended and e.kind in ('R', 'W', 'U', 'C'):
                groups.setdefault(e.addr, []).append(e)
        # cells seen by one concurrent thread only (plus the final function): the final function reads the
        # last executed write in program order (its own first, then that thread's), no clocks involved
        semi_groups = {}
        for e in self.events.values():
            if e.addr in self.semi and e.kind in ('R', 'W', 'U', 'C'):
                semi_groups.setdefault(e.addr, []).append(e)
        for a, evs in semi_groups.items():
            tws = sorted([e for e in evs if e.thread != 0 and e.kind in ('W', 'U', 'C')], key=lambda e: e.po)
            fws = sorted([e for e in evs if e.thread == 0 and e.kind in ('W', 'U', 'C')], key=lambda e: e.po)
            for r in evs:
                if r.thread != 0 or r.kind not in ('R', 'U', 'C') or r.local:
                    continue
                size = r.size
                initv = self.init_value(r)
                chain = ex.as_bv(initv, size * 8) if initv is not None else None
                for w in tws + [w for w in fws if w.po < r.po]:
                    if w.size != size:
                        raise Unsupported('mixed-size access at %#x' % a)
                    wv = ex.as_bv(w.wval, size * 8)
                    chain = wv if chain is None else z3.If(self.wrote(w), wv, chain)
                if chain is None:
                    raise Inconclusive('final function reads %#x which nobody initialised' % a)
                cons.append(z3.Implies(self.g(r.guard), ex.as_bv(r.rval, size * 8) == chain))
        self.rf_choice = {}
        self.src = {}
        width = self.clock_bits
        wrote_c = {}
        nwrote_c = {}

        def wrote(w):
            r_ = wrote_c.get(w.id)
            if r_ is None:
                r_ = wrote_c[w.id] = self.wrote(w)
                nwrote_c[w.id] = z3.Not(r_)
            return r_

        def nwrote(w):
            wrote(w)
            return nwrote_c[w.id]
        le = (lambda a_, b_: z3.ULE(a_, b_)) if width else (lambda a_, b_: a_ <= b_)
        for a, evs in groups.items():
            ws = [e for e in evs if e.kind in ('W', 'U', 'C')]
            rs = [e for e in evs if e.kind in ('R', 'U', 'C')]
            for r in rs:
                if r.local:
                    continue
                ge = self.xg(r)
                size = r.size
                rv = ex.as_bv(r.rval, size * 8)
                others = [w for w in ws if w.thread != r.thread and (w.thread != 0 or r.thread == 0)]
                owns = sorted([w for w in ws if w.thread == r.thread and w.po < r.po], key=lambda w: w.po)
                for w in owns:
                    if w.size != size:
                        raise Unsupported('mixed-size own write/read at %#x' % a)
                key = (r.thread, self.pos[r.id])
                sv = self.src.get(key)
                if sv is None:
                    sv = self.src[key] = (z3.BitVec('s_%d_%d' % key, width) if width else z3.Int('s_%d_%d' % key))
                rc = self.clk[r.id]
                opts = []
                # own thread: the LAST executed own write before r (events of one thread are ordered by po and
                # those in mutually exclusive branches are never executed together), else the initial value
                for i, w in enumerate(owns):
                    later = [nwrote(w2) for w2 in owns[i + 1:] if w2.po > w.po]
                    opts.append(z3.And(wrote(w), sv == self.clk[w.id], rv == ex.as_bv(w.wval, size * 8), *later))
                initv = self.init_value(r)
                if initv is not None:
                    opts.append(z3.And(sv == 0, rv == ex.as_bv(initv, size * 8), *[nwrote(w2) for w2 in owns]))
                for w in others:
                    opts.append(z3.And(wrote(w), sv == self.clk[w.id], rv == ex.as_bv(w.wval, size * 8)))
                body = [z3.Or(*opts) if opts else z3.BoolVal(False), self.lt(sv, rc)]
                # an executed own write before r is never younger than r's source
                for w in owns:
                    body.append(z3.Or(nwrote(w), le(self.clk[w.id], sv)))
                for w in others:
                    body.append(z3.Or(nwrote(w), le(self.clk[w.id], sv), self.lt(rc, self.clk[w.id])))
                cons.append(z3.Implies(ge, z3.And(*body)))
        if not width:
            for x in self.cvar.values():
                cons.append(x >= 1)
        # Lemma (redundant, sound under SC with atomic RMWs): a cell that the concurrent threads only ever
        # modify by atomic add/sub holds, once they are all done, its initial value plus the executed deltas.
        self.nlemmas = 0
        for a, evs in groups.items():
            ws = [e for e in evs if e.kind in ('W', 'U', 'C') and e.thread != 0]
            if not ws or not all(e.kind == 'U' and isinstance(e.info, tuple) and e.info[0] in ('add', 'sub') for e in ws):
                continue
            o = self.base.find_obj(a)
            if o is None:
                continue
            size = ws[0].size
            init = self.eng.mem_read(self.base, a, size, None, o)
            total = ex.as_bv(init, size * 8)
            zero = z3.BitVecVal(0, size * 8)
            for e in ws:
                d = ex.as_bv(e.info[1], size * 8)
                total = total + z3.If(self.g(e.guard), d if e.info[0] == 'add' else -d, zero)
            fin_ws = [e for e in evs if e.thread == 0 and e.kind in ('W', 'U', 'C')]
            if not all(e.kind == 'U' and isinstance(e.info, tuple) and e.info[0] in ('add', 'sub') for e in fin_ws):
                continue
            for r in evs:
                if r.thread == 0 and r.kind in ('R', 'U', 'C') and not r.local:
                    tot = total
                    for e in fin_ws:
                        if e.po < r.po:
                            d = ex.as_bv(e.info[1], size * 8)
                            tot = tot + z3.If(self.g(e.guard), d if e.info[0] == 'add' else -d, zero)
                    cons.append(z3.Implies(self.g(r.guard), ex.as_bv(r.rval, size * 8) == tot))
                    self.nlemmas += 1
        self.cons = cons
        self.nasserts = len(cons)
        for c in cons:
            S.add(c)
        self.S = S
        self.B = B
        return S

    # ------------------------------------------------------------------ M2hb: C11 happens-before on SC executions
    REL = ('release', 'acq_rel', 'seq_cst')
    ACQ = ('acquire', 'acq_rel', 'seq_cst')

    def is_release_write(self, w):
        """z3 condition: w is executed as a write with release (or stronger) semantics."""
        if w.kind not in ('W', 'U', 'C') or not w.atomic or w.ordering not in self.REL:
            return None
        return self.wrote(w)

    def acquire_cond(self, r):
        """z3 condition under which the read part of r has acquire (or stronger) semantics (None: never)."""
        if r.kind not in ('R', 'U', 'C') or not r.atomic:
            return None
        if r.kind == 'C':
            fail_ord = r.info[0] if isinstance(r.info, tuple) else None
            s_ok = r.ordering in self.ACQ
            f_ok = fail_ord in self.ACQ
            if s_ok and f_ok:
                return self.g(r.guard)
            succ = r.succ if isinstance(r.succ, int) else ex.as_bool(r.succ)
            if s_ok:
                return self.g(r.guard) if succ == 1 else (z3.BoolVal(False) if succ == 0 else z3.And(self.g(r.guard), succ))
            if f_ok:
                return self.g(r.guard) if succ == 0 else (z3.BoolVal(False) if succ == 1 else z3.And(self.g(r.guard), z3.Not(succ)))
            return None
        return self.g(r.guard) if r.ordering in self.ACQ else None

    def reads_from(self, r, w):
        """r reads the value written by w, directly or through one RMW in between (release sequence)."""
        kr = (r.thread, self.pos.get(r.id))
        sv = self.src.get(kr)
        if sv is None or w.id not in self.clk:
            return None
        direct = sv == self.clk[w.id]
        opts = [direct]
        for u in self.rmw_by_addr.get(r.addr, []):
            if u is w or u is r or u.id not in self.clk:
                continue
            su = self.src.get((u.thread, self.pos.get(u.id)))
            if su is None:
                continue
            opts.append(z3.And(self.wrote(u), sv == self.clk[u.id], su == self.clk[w.id]))
        return z3.Or(*opts)

    def hb(self, x, y):
        """x (thread A) happens-before y (thread B != A) through one synchronises-with edge: a release write w of A
        at or after x, read by r of B at or before y, r acquire or followed by an acquire fence before y.
        Under-approximates hb for executions that need longer chains (3 threads): stated in the evidence."""
        A, B = x.thread, y.thread
        terms = []
        fences = [f for f in self.thread_events.get(B, []) if f.kind == 'F' and f.ordering in self.ACQ and f.po <= y.po]
        for w in self.thread_events.get(A, []):
            if w.po < x.po or w.addr is None or w.addr not in self.contended:
                continue
            rw = self.is_release_write(w)
            if rw is None:
                continue
            for r in self.thread_events.get(B, []):
                if r.addr != w.addr or r.po > y.po or r.kind not in ('R', 'U', 'C') or r.local:
                    continue
                rf = self.reads_from(r, w)
                if rf is None:
                    continue
                acq = self.acquire_cond(r)
                conds = []
                if acq is not None:
                    conds.append(acq)
                for f in fences:
                    if f.po > r.po and r.atomic:
                        conds.append(z3.And(self.g(r.guard), self.g(f.guard)))
                if not conds:
                    continue
                terms.append(z3.And(rw, rf, z3.Or(*conds)))
        return z3.Or(*terms) if terms else z3.BoolVal(False)

    def race_terms(self):
        self.rmw_by_addr = {}
        for e in self.events.values():
            if e.kind in ('U', 'C') and e.addr in self.contended:
                self.rmw_by_addr.setdefault(e.addr, []).append(e)
        out = []
        by_addr = {}
        for e in self.events.values():
            if e.addr in self.contended and e.kind in ('R', 'W', 'U', 'C') and e.thread != 0 and e.id in self.clk:
                by_addr.setdefault(e.addr, []).append(e)
        for a, evs in by_addr.items():
            if all(e.atomic for e in evs):
                continue
            for i, e1 in enumerate(evs):
                for e2 in evs[i + 1:]:
                    if e1.thread == e2.thread or (e1.atomic and e2.atomic):
                        continue
                    if e1.kind == 'R' and e2.kind == 'R':
                        continue
                    both = z3.And(self.g(e1.guard), self.g(e2.guard))
                    t = z3.And(both, z3.Or(
                        z3.And(self.lt(self.clk[e1.id], self.clk[e2.id]), z3.Not(self.hb(e1, e2))),
                        z3.And(self.lt(self.clk[e2.id], self.clk[e1.id]), z3.Not(self.hb(e2, e1)))))
                    out.append((e1, e2, t))
        self.nraces = len(out)
        return out

    def init_value(self, r):
        """Value of the cell before the concurrent phase (None: the object did not exist yet)."""
        st = self.base
        o = st.find_obj(r.addr)
        if o is None:
            return None
        return self.eng.mem_read(st, r.addr, r.size, None, o)

    # ------------------------------------------------------------------ deciding
    def decide(self, spec, scenario, timeout_s):
        t0 = time.time()
        eng = self.eng
        S = self.build()
        S.set('timeout', int(timeout_s * 1000))
        nq = 0
        violations = []
        inconclusive = []
        # cross-thread free vs access
        obligations = []
        for t, lv in self.leaves.items():
            seen = set()
            for leaf in lv:
                for ob in leaf.oblig:
                    if id(ob) in seen:
                        continue
                    seen.add(id(ob))
                    obligations.append((t, leaf, ob))
        frees = [e for e in self.events.values() if e.kind == 'FREE']
        uaf = []
        for f in frees:
            for e in self.events.values():
                if e.thread == f.thread or e.addr is None or e.kind not in ('R', 'W', 'U', 'C', 'FREE'):
                    continue
                if f.addr <= e.addr < f.addr + max(f.size, 1):
                    uaf.append((f, e))
        races = self.race_terms() if self.hb_mode else []
        # every obligation is its own query (the combined disjunction is far harder for the solver than the sum
        # of its parts); identical (kind, ident) violations are reported once
        viol_terms = []
        items = []
        # the final function judges complete executions only: every thread ran to its end (a thread that was
        # cut by a bound or died is reported through its own obligation)
        complete = []
        for t, lv in self.leaves.items():
            if t == 0:
                continue
            done = [self.g(tuple(leaf.pc)) for leaf in lv if leaf.status == 'done']
            complete.append(z3.Or(*done) if done else z3.BoolVal(False))
        if self.subject is not None:
            obligations = [(t, leaf, ob) for (t, leaf, ob) in obligations if t == self.subject and ob.kind in ('bound', 'blocking')]
            uaf = []
        for (t, leaf, ob) in obligations:
            c = self.g(ob.guard)
            if ob.cond is not None:
                c = z3.And(c, z3.Not(ob.cond))
            if t == 0 and ob.kind != 'bound':
                c = z3.And(c, *complete)
            viol_terms.append(c)
            items.append(((t, leaf, ob), None))
        for f, e in uaf:
            viol_terms.append(z3.And(self.g(f.guard), self.g(e.guard), self.lt(self.clk[f.id], self.clk[e.id])))
            items.append((None, (f, e)))
        for (e1, e2, term) in races:
            viol_terms.append(term)
            items.append((None, ('race', e1, e2)))
        verdict = 'holds'
        self.per_query = []
        self._S = S
        self._timeout_ms = int(timeout_s * 1000)
        self._viol_terms = viol_terms
        self._items = items
        self._spec = spec
        self._scenario = scenario
        results = parallel_check(self, len(viol_terms))
        nq += len(viol_terms)
        done_keys = set()
        for idx in range(len(viol_terms)):
            r2, dt, payload = results[idx]
            o, u = items[idx]
            key = (o[2].kind, str(o[2].ident), o[0]) if o is not None else (('race', '%#x' % u[1].addr, 0) if u[0] == 'race' else ('engine', 'use-after-free', 0))
            self.per_query.append((dt, key, r2))
            if r2 == 'sat':
                if key in done_keys:
                    continue
                done_keys.add(key)
                if o is not None and o[2].kind == 'bound' and self.subject is None:
                    inconclusive.append(o[2].msg + ' (reachable under SC: raise the bound)')
                else:
                    violations.append(payload)
            elif r2 == 'unknown':
                inconclusive.append('solver timeout/unknown on obligation %s' % (key,))
        if violations:
            verdict = 'violated'
        elif inconclusive:
            verdict = 'inconclusive'
        # reachability witnesses
        covered = []
        missing = []
        cov = {}
        for t, lv in self.leaves.items():
            for leaf in lv:
                for cid, gl in leaf.covers.items():
                    for g in gl:
                        cov.setdefault(cid, []).append(self.g(g))
        for cid in spec.get('covers', []):
            gs = cov.get(cid)
            if not gs:
                missing.append(cid)
                continue
            S.push()
            S.add(z3.Or(*gs))
            r = S.check()
            nq += 1
            S.pop()
            if r == z3.sat:
                covered.append(cid)
            else:
                missing.append(cid)
        sample = None
        if self.events:
            S.push()
            S.set('timeout', 5000)
            r = S.check()
            nq += 1
            if r == z3.sat:
                m = S.model()
                sched = self.schedule(m, only_gated=False)
                sample = {'scenario': scenario, 'one_consistent_schedule_thread_ids': sched[:60]}
            S.pop()
        return {'violations': violations, 'inconclusive': inconclusive, 'covered': covered, 'missing_covers': missing,
                'events': len(self.events), 'contended_cells': len(self.contended), 'obligations': len(viol_terms),
                'smt_vars': self.nvars, 'smt_asserts': self.nasserts, 'smt_queries': nq,
                'smt_s': time.time() - t0, 'verdict': verdict, 'sample': sample, 'slow_queries': sorted(self.per_query, key=lambda x: x[0])[-8:], 'lemmas': self.nlemmas}

    def active_events(self, m):
        """Executed events in a global order consistent with the model: an event without its own clock
        (uncontended cell) is placed right after the preceding clocked event of its thread."""
        act = []
        per_thread = {}
        for e in self.events.values():
            if z3.is_true(m.eval(self.xg(e), model_completion=True)):
                per_thread.setdefault(e.thread, []).append(e)
        for t, evs in per_thread.items():
            evs.sort(key=lambda e: e.po)
            last = -1
            if t in self.cut:
                # a frozen thread stops at its last clocked event before the cut
                clocked = [e for e in evs if e.id in self.clk]
                lastpo = clocked[-1].po if clocked else -1
                evs = [e for e in evs if e.po <= lastpo]
            for e in evs:
                if e.id in self.clk:
                    last = m.eval(self.clk[e.id], model_completion=True).as_long()
                act.append((last if t != 0 else last + (1 << 62), t, e.po, e))
        act.sort(key=lambda x: (x[0], x[1], x[2]))
        return act

    def schedule(self, m, only_gated=True):
        return [t for (_, t, _, e) in self.active_events(m) if t != 0 and (not only_gated or gated(self.eng, e))]

    def make_violation(self, m, spec, scenario, o, u):
        eng = self.eng
        if o is not None:
            t, leaf, ob = o
            kind, ident, msg, where = ob.kind, ob.ident, ob.msg, eng.loc(ob.ins)
        elif u[0] == 'race':
            _, e1, e2 = u
            kind, ident = 'race', 'data-race'
            msg = 'data race (C11 happens-before, judged on an SC execution): %s by thread %d at %s  <->  %s by thread %d at %s' % (
                'write' if e1.kind != 'R' else 'read', e1.thread, eng.loc(e1.ins).split(' <- ')[0],
                'write' if e2.kind != 'R' else 'read', e2.thread, eng.loc(e2.ins).split(' <- ')[0])
            where = eng.loc(e2.ins)
            t = e2.thread
        else:
            f, e = u
            kind, ident = 'engine', 'use-after-free'
            msg = 'thread %d accesses %#x (%s) after thread %d freed the block (%s)' % (
                e.thread, e.addr, eng.loc(e.ins), f.thread, eng.loc(f.ins))
            where = eng.loc(e.ins)
            t = e.thread
        nondet = {}
        for th, lv in self.leaves.items():
            # the active leaf of each thread: first leaf whose pc holds in the model; fall back to marks by guard
            seen = set()
            lst = []
            for leaf in lv:
                for mk in leaf.marks:
                    if mk[0] == 'nondet' and id(mk[2]) not in seen:
                        seen.add(id(mk[2]))
                        lst.append((mk[3], mk[1], m.eval(mk[2], model_completion=True).as_long()))
            lst.sort()
            nondet[th] = [(ident_, v) for (_, ident_, v) in lst]
        sched = self.schedule(m)
        trace = []
        for (c, th, po, e) in self.active_events(m):
            if e.kind in ('R', 'W', 'U', 'C'):
                rv = m.eval(ex.as_bv(e.rval, e.size * 8), model_completion=True).as_long() if e.rval is not None else None
                wv = m.eval(ex.as_bv(e.wval, e.size * 8), model_completion=True).as_long() if e.wval is not None else None
                trace.append('clk=%d t%d %s %s@%#x r=%s w=%s %s' % (
                    c, th, e.kind, e.ordering or 'na', e.addr, hex(rv) if rv is not None else '-',
                    hex(wv) if wv is not None else '-', eng.loc(e.ins).split(' <- ')[-2 if ' <- ' in eng.loc(e.ins) else 0]))
        v = ConcViolation(scenario, kind, ident, msg, inputs={'nondet': {str(k): v for k, v in nondet.items()}},
                          thread=t, where=where, schedule=sched, spec=spec, nondet=nondet)
        if self.subject is not None:
            v.freeze = sorted(self.cut)
            v.subject_thread = self.subject
            v.kind = 'hang'
        v.trace = trace
        if os.environ.get('IRSYM_DEBUG'):
            for th, lv in self.leaves.items():
                best = None
                for leaf in lv:
                    k = 0
                    for c in leaf.pc:
                        if z3.is_true(m.eval(c, model_completion=True)):
                            k += 1
                        else:
                            break
                    if best is None or k > best[0]:
                        best = (k, leaf)
                k, leaf = best
                print('DEBUG thread', th, 'best leaf status', leaf.status, 'true prefix', k, 'of', len(leaf.pc),
                      'first false:', str(leaf.pc[k])[:300] if k < len(leaf.pc) else None)
                if k < len(leaf.pc):
                    txt = str(leaf.pc[k])
                    for e in leaf.events:
                        if e.rval is not None and not isinstance(e.rval, int) and str(e.rval) in txt:
                            print('   event', e, 'local', e.local, 'contended', e.addr in self.contended, 'haspos', e.id in self.pos,
                                  'guard true', z3.is_true(m.eval(self.g(e.guard), model_completion=True)), 'val', m.eval(e.rval, model_completion=True),
                                  self.eng.loc(e.ins)[:120])
                            print('   guard:', [str(c)[:100] for c in e.guard], 'evals', [str(m.eval(c, model_completion=True)) for c in e.guard])
        return v


def run_havoc(sess, spec, subject=1, loop_bound=2, adversary='cs_adv_store', budget_factor=4, scenario=None):
    """C08: the subject thread against an adversarial environment. Every shared read of the subject returns ANY
    value that the other threads can ever write to that cell (value domains from the fix-point extraction), with
    no consistency between reads: a superset of whatever any number of writers do between any two of its steps.
    The subject must finish every path without taking a loop whose continuation depends on such reads more
    than `loop_bound` times, and without a blocking call. Decided locally (path feasibility by z3)."""
    scenario = scenario or spec.get('name')
    t0 = time.time()
    ext = run_conc(sess, spec, loop_bound=loop_bound, extract_only=True, scenario=scenario)
    eng = ext['engine']
    lv = ext['leaves'][subject]
    violations = []
    maxsteps = 0
    nob = 0
    for leaf in lv:
        steps = sum(1 for e in leaf.events if gated(eng, e))
        if leaf.status == 'done':
            maxsteps = max(maxsteps, steps)
        for ob in leaf.oblig:
            if ob.kind in ('bound', 'blocking'):
                nob += 1
                if not eng.feasible(leaf):
                    continue
                v = Violation(scenario, 'bound', ob.ident, 'the read path can be kept busy/blocked by other threads: ' + ob.msg,
                              thread=subject, where=eng.loc(ob.ins))
                pre = spec['threads'][subject - 1][0]
                body = spec['threads'][subject - 1][1]

                def custom_replay(path, pre=pre, body=body, maxsteps=maxsteps):
                    rp.write_replay(path, 'adversary', [body], setup=spec.get('setup'), comment=v.msg,
                                    flavor=getattr(v, 'flavor', 'rel'), features=getattr(v, 'features', ()))
                    with open(path, 'a') as f:
                        if pre:
                            f.write('pre 1 %s\n' % pre)
                        f.write('adversary %s\nbudget %d\n' % (adversary, max(64, budget_factor * max(maxsteps, 16))))
                    nat = rp.run_native(path, timeout=120)
                    ok = 'STEP-BUDGET-EXCEEDED' in nat['out'] or nat['hung']
                    return ok, nat['out'][-1500:]
                v.custom_replay = custom_replay
                violations.append(v)
    sess.functions_encoded |= set(eng.fn_instrs)
    return {'scenario': scenario, 'mode': 'M1-havoc', 'violations': violations, 'inconclusive': [], 'covered': [], 'missing_covers': [],
            'paths': len(lv), 'events': sum(len(l.events) for l in lv), 'obligations': nob, 'instrs': eng.stats['instrs'],
            'queries': eng.nqueries, 'solver_s': round(eng.solver_time, 2), 'explore_s': round(time.time() - t0, 2),
            'rounds': ext['rounds'], 'threads': ext['nthreads'], 'max_own_steps_of_a_complete_read': maxsteps,
            'sample': {'scenario': scenario, 'subject_paths': len(lv), 'max_own_atomic_steps': maxsteps}}
