"""Bounded symbolic executor for the LLVM IR subset of llparse.py.

One `Engine` holds the linked modules; `Engine.explore(entry, state, ...)` runs a function from a
given memory state and returns the leaves of its execution tree. Values are Python ints while
concrete and z3 terms once symbolic. Branches on symbolic conditions fork after a solver
feasibility check. In concurrent mode accesses to memory that other threads write return fresh
symbols constrained to the cell's value domain and are logged as events for the axiomatic
encoder (conc.py).
"""
import bisect
import os
import itertools
import z3

from llparse import Unsupported, Ty, IntTy, PTR


class EngineError(Exception):
    """Engine-level violation on a feasible path (out-of-object access, double free, ...)."""

    def __init__(self, kind, msg):
        Exception.__init__(self, '%s: %s' % (kind, msg))
        self.kind = kind
        self.msg = msg


def mask(bits):
    return (1 << bits) - 1


def is_conc(v):
    return isinstance(v, int)


def to_signed(v, bits):
    return v - (1 << bits) if v >> (bits - 1) else v


LAST_ENGINE = None
_sym_ctr = itertools.count()
_frame_ctr = itertools.count(1)


def fresh(prefix, bits):
    return z3.BitVec('%s!%d' % (prefix, next(_sym_ctr)), bits)


def as_bv(v, bits):
    if isinstance(v, int):
        return z3.BitVecVal(v, bits)
    if z3.is_bool(v):
        return z3.If(v, z3.BitVecVal(1, bits), z3.BitVecVal(0, bits))
    return v


def as_bool(v):
    if isinstance(v, int):
        return z3.BoolVal(bool(v))
    if z3.is_bool(v):
        return v
    return v == z3.BitVecVal(1, v.size())


def simp(v):
    """Simplify a z3 term; return a Python int if it became a constant."""
    if isinstance(v, int):
        return v
    v = z3.simplify(v)
    if z3.is_bv_value(v):
        return v.as_long()
    if z3.is_true(v):
        return 1
    if z3.is_false(v):
        return 0
    return v


# ------------------------------------------------------------------------------- memory

class Obj:
    __slots__ = ('id', 'base', 'size', 'kind', 'name', 'thread')

    def __init__(self, id, base, size, kind, name, thread=None):
        self.id = id
        self.base = base
        self.size = size
        self.kind = kind      # 'global' 'const' 'stack' 'heap' 'tls' 'func'
        self.name = name
        self.thread = thread

    def __repr__(self):
        return '<%s %s @%#x+%d>' % (self.kind, self.name, self.base, self.size)


class Frame:
    __slots__ = ('fn', 'block', 'idx', 'regs', 'prev', 'allocas', 'visits', 'ret_dest', 'unwind_to',
                 'normal_to', 'catch', 'uid')

    def __init__(self, fn):
        self.fn = fn
        self.block = fn.entry
        self.idx = 0
        self.regs = {}
        self.prev = None
        self.allocas = []
        self.visits = {}
        self.ret_dest = None
        self.unwind_to = None
        self.normal_to = None
        self.catch = None
        self.uid = next(_frame_ctr)

    def copy(self):
        f = Frame.__new__(Frame)
        f.fn = self.fn
        f.block = self.block
        f.idx = self.idx
        f.regs = dict(self.regs)
        f.prev = self.prev
        f.allocas = list(self.allocas)
        f.visits = dict(self.visits)
        f.ret_dest = self.ret_dest
        f.unwind_to = self.unwind_to
        f.normal_to = self.normal_to
        f.catch = self.catch
        f.uid = self.uid
        return f


class Event:
    __slots__ = ('id', 'thread', 'po', 'kind', 'addr', 'size', 'rval', 'wval', 'ordering', 'atomic',
                 'guard', 'ins', 'succ', 'local', 'info', 'wcond')

    def __init__(self, **kw):
        self.succ = None
        self.local = False
        self.info = None
        self.wcond = None
        for k, v in kw.items():
            setattr(self, k, v)

    def __repr__(self):
        return 'E%d[t%d %s %#x %s r=%s w=%s]' % (self.id, self.thread, self.kind, self.addr or 0,
                                                  self.ordering, self.rval, self.wval)


class Obligation:
    """Something that must not be reachable: (kind, guard conds, extra)."""
    __slots__ = ('kind', 'guard', 'cond', 'ident', 'ins', 'thread', 'po', 'msg')

    def __init__(self, kind, guard, cond, ident, ins, thread, po, msg=''):
        self.kind = kind        # 'assert' 'panic' 'abort' 'bound' 'engine' 'blocking' 'ub'
        self.guard = guard      # tuple of z3 Bool (path condition)
        self.cond = cond        # z3 Bool that must hold (violation = guard and not cond); None => False
        self.ident = ident
        self.ins = ins
        self.thread = thread
        self.po = po
        self.msg = msg


class State:
    def __init__(self):
        self.frames = []
        self.objs = {}          # id -> Obj          (copy on fork: shallow)
        self.bases = []         # sorted [(base, id)]
        self.live = {}          # id -> bool
        self.mem = {}           # id -> {off: (size, val)}
        self.owned = set()      # ids whose cell dict this state may mutate
        self.pc = []            # list of z3 Bool
        self.events = []
        self.oblig = []
        self.covers = {}        # id -> guard tuple (first time reached)
        self.marks = []
        self.thread = 0
        self.next_heap = {}
        self.next_stack = {}
        self.tls_inst = {}      # (thread, gname) -> obj id
        self.tls_dtors = {}     # thread -> [(ptr, fnaddr)]
        self.status = 'running'
        self.retval = None
        self.nsteps = 0
        self.spurious = 0
        self.freed_blocks = []  # [(base,size,align)] for reuse model
        self.po = 0
        self.unwinding = None
        self.depth_guard = 0
        self.nforks = 0
        self.park_key = None
        self.stop = None
        self.exiting = set()
        self.stacks = None      # context-bounded mode (cb.py): suspended threads, tid -> [Frame]
        self.cb_budget = 0      # preemptive context switches left
        self.cb_skip = False    # the running thread must perform its pending gated step before the next decision
        self.cb_switches = 0
        self.cb_pending = {}    # tid -> (after_tid, fn): threads started only once another one has finished
        self.cb_subject = None  # freeze mode (C09): (tid, fn) of the thread that runs alone once all others are frozen
        self.cb_frozen = None   # ... and the threads that were frozen (suspended for ever) when it started
        self.cb_freeze_at = None

    def fork(self):
        s = State.__new__(State)
        s.frames = [f.copy() for f in self.frames]
        s.objs = dict(self.objs)
        s.bases = list(self.bases)
        s.live = dict(self.live)
        s.mem = dict(self.mem)
        s.owned = set()
        self.owned = set()
        s.pc = list(self.pc)
        s.events = list(self.events)
        s.oblig = list(self.oblig)
        s.covers = dict(self.covers)
        s.marks = list(self.marks)
        s.thread = self.thread
        s.next_heap = dict(self.next_heap)
        s.next_stack = dict(self.next_stack)
        s.tls_inst = dict(self.tls_inst)
        s.tls_dtors = {k: list(v) for k, v in self.tls_dtors.items()}
        s.status = self.status
        s.retval = self.retval
        s.nsteps = self.nsteps
        s.spurious = self.spurious
        s.freed_blocks = list(self.freed_blocks)
        s.po = self.po
        s.unwinding = self.unwinding
        s.depth_guard = self.depth_guard
        s.nforks = self.nforks
        s.park_key = None
        s.stop = self.stop
        s.exiting = set(self.exiting)
        s.stacks = None if self.stacks is None else {t: [f.copy() for f in fs] for t, fs in self.stacks.items()}
        s.cb_budget = self.cb_budget
        s.cb_skip = self.cb_skip
        s.cb_switches = self.cb_switches
        s.cb_pending = dict(self.cb_pending)
        s.cb_subject = self.cb_subject
        s.cb_frozen = self.cb_frozen
        s.cb_freeze_at = self.cb_freeze_at
        return s

    # ---- objects
    def add_obj(self, obj):
        self.objs[obj.id] = obj
        bisect.insort(self.bases, (obj.base, obj.id))
        self.live[obj.id] = True
        self.mem[obj.id] = {}
        self.owned.add(obj.id)

    def find_obj(self, addr):
        i = bisect.bisect_right(self.bases, (addr, 1 << 62)) - 1
        if i < 0:
            return None
        base, oid = self.bases[i]
        o = self.objs[oid]
        if addr < o.base + max(o.size, 1):
            return o
        return None

    def cells(self, oid, write=False):
        if write and oid not in self.owned:
            self.mem[oid] = dict(self.mem[oid])
            self.owned.add(oid)
        return self.mem[oid]


EXTERN_ZERO_GLOBALS = ['panic_count18GLOBAL_PANIC_COUNT']
HEAP_BASE = 0x10000000
HEAP_STRIDE = 0x01000000
STACK_BASE = 0x7000000000
STACK_STRIDE = 0x0010000000
TLS_BASE = 0x6000000000
TLS_STRIDE = 0x0000100000
GLOBAL_BASE = 0x00200000
FUNC_BASE = 0x00010000

_obj_ctr = itertools.count(1)
_ev_ctr = itertools.count(1)


class Env:
    """What a thread knows about the other threads during extraction (concurrent mode)."""

    def __init__(self):
        self.other_writes = {}   # addr -> (set(concrete values), top: bool, size)
        self.foreign_objs = []   # [(base, size, name)] objects allocated by other threads
        self.concurrent = False

    def foreign(self, addr):
        for base, size, name in self.foreign_objs:
            if base <= addr < base + size:
                return (base, size, name)
        return None




_uninit_cache = {}


def has_uninit(t, limit=4000):
    if isinstance(t, int):
        return False
    key = t.get_id()
    hit = _uninit_cache.get(key)
    if hit is not None and hit[0] is not None:
        return hit[1]
    r = _has_uninit(t, limit)
    _uninit_cache[key] = (t, r)      # keep the term alive so that the id stays unique
    return r


def _has_uninit(t, limit):
    stack = [t]
    seen = set()
    while stack and len(seen) < limit:
        x = stack.pop()
        if isinstance(x, int):
            continue
        i = x.get_id()
        if i in seen:
            continue
        seen.add(i)
        if z3.is_const(x) and x.decl().kind() == z3.Z3_OP_UNINTERPRETED:
            if x.decl().name().startswith(('uninit!', 'undef!')):
                return True
        stack.extend(x.children())
    return False


def ite_leaves(t, limit=64):
    """Constant leaves of an if-then-else tree (None if some leaf is not a constant): a cheap
    over-approximation of the values a merged term can take."""
    out = set()
    stack = [t]
    seen = set()
    while stack:
        x = stack.pop()
        if isinstance(x, int):
            out.add(x)
            continue
        i = x.get_id()
        if i in seen:
            continue
        seen.add(i)
        if z3.is_bv_value(x):
            out.add(x.as_long())
        elif z3.is_app_of(x, z3.Z3_OP_ITE):
            stack.append(x.arg(1))
            stack.append(x.arg(2))
        else:
            return None
        if len(out) > limit:
            return None
    return out


def compute_ipdom(fn):
    """Immediate post-dominators of the blocks of `fn` (iterative data-flow on the reversed CFG)."""
    succ = {}
    for lab, blk in fn.blocks.items():
        t = blk[-1]
        if t.op == 'br':
            succ[lab] = list(t.extra['targets'])
        elif t.op == 'switch':
            succ[lab] = [t.extra['default']] + [l for _, l in t.extra['cases']]
        elif t.op == 'invoke':
            succ[lab] = [t.extra['normal'], t.extra['unwind']]
        else:
            succ[lab] = []       # ret / unreachable / resume: to the virtual exit
    EXIT = None
    labs = list(fn.blocks)
    allset = set(labs) | {EXIT}
    pdom = {l: set(allset) for l in labs}
    pdom[EXIT] = {EXIT}
    changed = True
    while changed:
        changed = False
        for l in reversed(labs):
            ss = succ[l] or [EXIT]
            new = None
            for x in ss:
                new = set(pdom[x]) if new is None else new & pdom[x]
            new = (new or set()) | {l}
            if new != pdom[l]:
                pdom[l] = new
                changed = True
    ip = {}
    for l in labs:
        cands = pdom[l] - {l}
        best = None
        for c in cands:
            if c is EXIT:
                continue
            if all(o in pdom[c] for o in cands if o != c):
                best = c
                break
        ip[l] = best
    return ip

class Engine:
    def __init__(self, modules, loop_bound=10, max_steps=200000, unwind=False, max_paths=20000):
        self.modules = modules
        self.functions = {}
        self.globals = {}
        self.loop_bound = loop_bound
        self.max_steps = max_steps
        self.max_paths = max_paths
        self.unwind = unwind
        self.solver = z3.Solver()
        self.solver.set('timeout', int(os.environ.get('IRSYM_CHECK_TIMEOUT_MS', '4000')))
        self._pc_stack = []
        self._model_cache = None
        self.model_hits = 0
        self.unknown_checks = 0
        self.sym_domain = {}
        self._ipdom_cache = {}
        self.auto_merge = False
        self.nqueries = 0
        self.solver_time = 0.0
        self.func_addr = {}
        self.addr_func = {}
        self.global_addr = {}
        self.global_def = {}
        self.stats = {'instrs': 0, 'forks': 0, 'paths': 0}
        self.fn_instrs = {}
        self.reuse = False
        self.hooks = {}
        self.trace = None
        for m in modules:
            for name, f in m.functions.items():
                self.functions[name] = f
        for m in modules:
            for al, target in m.aliases.items():
                if target in self.functions:
                    self.functions[al] = self.functions[target]
        names = set(self.functions)
        for m in modules:
            names |= set(m.declares)
        for i, name in enumerate(sorted(names)):
            a = FUNC_BASE + 16 * i
            self.func_addr[name] = a
            self.addr_func[a] = name
        # globals: definitions win over external declarations
        for m in modules:
            for name, g in m.globals.items():
                if not g.external:
                    if name in self.global_def and not name.startswith('alloc_') and not name.startswith('anon.'):
                        pass
                    self.global_def[(m.name, name)] = (m, g)
        self._layout_done = False

    # ------------------------------------------------------------------ initial state
    def _gkey(self, mod, name):
        """Resolve a global reference from module `mod`."""
        if (mod.name, name) in self.global_def:
            return (mod.name, name)
        for m in self.modules:
            if (m.name, name) in self.global_def:
                g = self.global_def[(m.name, name)][1]
                return (m.name, name)
        return None

    def initial_state(self):
        st = State()
        addr = GLOBAL_BASE
        self.tls_templates = {}
        order = sorted(self.global_def.keys())
        for key in order:
            m, g = self.global_def[key]
            size = m.size_of(g.ty)
            al = max(g.align, m.align_of(g.ty), 1)
            if g.tls:
                self.tls_templates[key] = (m, g, size, al)
                continue
            addr = (addr + al - 1) // al * al
            self.global_addr[key] = addr
            o = Obj(next(_obj_ctr), addr, size, 'const' if g.const else 'global', key[1])
            st.add_obj(o)
            addr += max(size, 1) + 64
        for key in order:
            m, g = self.global_def[key]
            if g.tls:
                continue
            o = st.find_obj(self.global_addr[key])
            self._init_value(st, m, o, 0, g.ty, g.init)
        # external statics of std that the code only reads: modelled as zero (listed in models.MODELS)
        self.extern_addr = {}
        for m in self.modules:
            for name, g in m.globals.items():
                if g.external and not g.tls and self._gkey(m, name) is None and name not in self.extern_addr:
                    if any(pat in name for pat in EXTERN_ZERO_GLOBALS):
                        size = m.size_of(g.ty)
                        addr = (addr + 15) // 16 * 16
                        o = Obj(next(_obj_ctr), addr, size, 'global', name)
                        st.add_obj(o)
                        self._zero(st.cells(o.id, True), 0, size)
                        self.extern_addr[name] = addr
                        addr += size + 64
        return st

    def _init_value(self, st, m, obj, off, ty, val):
        ty = m.resolve(ty)
        k = val[0]
        cells = st.cells(obj.id, True)
        if k == 'undef':
            return
        if k == 'zero':
            size = m.size_of(ty)
            self._zero(cells, off, size)
            return
        if ty.kind == 'int':
            if k != 'int':
                raise Unsupported('int initializer %r' % (val,))
            cells[off] = (m.size_of(ty), val[1] & mask(m.size_of(ty) * 8))
            return
        if ty.kind == 'ptr':
            cells[off] = (8, self.const_value(m, val, st))
            return
        if ty.kind == 'array':
            if k == 'cstr':
                b = val[1]
                for i, ch in enumerate(b):
                    cells[off + i] = (1, ch)
                return
            if k == 'arr':
                es = m.size_of(ty.elems)
                for i, (t, v) in enumerate(val[1]):
                    self._init_value(st, m, obj, off + i * es, t, v)
                return
        if ty.kind == 'struct':
            if k == 'agg':
                for i, (t, v) in enumerate(val[1]):
                    self._init_value(st, m, obj, off + m.field_offset(ty, i), t, v)
                return
        raise Unsupported('initializer %r for %r' % (val, ty))

    @staticmethod
    def _zero(cells, off, size):
        end = off + size
        while off < end:
            if off % 8 == 0 and end - off >= 8:
                cells[off] = (8, 0)
                off += 8
            else:
                cells[off] = (1, 0)
                off += 1

    def const_value(self, m, val, st=None):
        k = val[0]
        if k == 'int':
            return val[1]
        if k == 'null':
            return 0
        if k == 'global':
            name = val[1]
            key = self._gkey(m, name)
            if key is not None:
                if key in self.global_addr:
                    return self.global_addr[key]
                raise Unsupported('address of TLS global in constant')
            if name in self.func_addr:
                return self.func_addr[name]
            raise Unsupported('unknown global @%s' % name)
        if k == 'inttoptr' or k == 'ptrtoint':
            return self.const_value(m, val[1], st)
        if k == 'gepc':
            bt, base, idx = val[1], val[2], val[3]
            a = self.const_value(m, base, st)
            return a + self.gep_offset(m, bt, [self.const_value(m, i, st) for i in idx])
        if k == 'undef':
            return 0
        raise Unsupported('constant %r' % (val,))

    def gep_offset(self, m, bt, idx):
        off = 0
        ty = bt
        first = True
        for i in idx:
            if first:
                sz = m.size_of(ty)
                if is_conc(i):
                    off = off + to_signed(i & mask(64), 64) * sz
                else:
                    off = off + i * sz
                first = False
                continue
            ty = m.resolve(ty)
            if ty.kind == 'struct':
                if not is_conc(i):
                    raise Unsupported('symbolic struct index')
                off = off + m.field_offset(ty, i)
                ty = ty.elems[i]
            elif ty.kind == 'array':
                sz = m.size_of(ty.elems)
                if is_conc(i):
                    off = off + to_signed(i & mask(64), 64) * sz
                else:
                    off = off + i * sz
                ty = ty.elems
            else:
                raise Unsupported('gep into %r' % ty)
        return off

    # ------------------------------------------------------------------ solver
    def _sync(self, pc):
        """Bring the solver's assertion stack in line with the path condition `pc` (shared prefixes of
        neighbouring DFS states are not re-asserted)."""
        stk = self._pc_stack
        k = 0
        n = min(len(stk), len(pc))
        while k < n and stk[k] is pc[k]:
            k += 1
        if len(stk) > k:
            self.solver.pop(len(stk) - k)
            del stk[k:]
        for c in pc[k:]:
            self.solver.push()
            self.solver.add(c)
            stk.append(c)

    def feasible(self, st, extra=None):
        import time
        t0 = time.time()
        s = self.solver
        # model reuse: a model of (a prefix of) this path condition that also satisfies the rest and `extra`
        # answers "feasible" without a solver call
        mc = self._model_cache
        if mc is not None:
            mpc, mdl = mc
            n = len(mpc)
            if n <= len(st.pc) and all(mpc[i] is st.pc[i] for i in range(n)):
                ok = True
                for c in st.pc[n:]:
                    if not z3.is_true(mdl.eval(c, model_completion=True)):
                        ok = False
                        break
                if ok and (extra is None or z3.is_true(mdl.eval(extra, model_completion=True))):
                    self.model_hits += 1
                    self.solver_time += time.time() - t0
                    return True
        self._sync(st.pc)
        if extra is not None:
            s.push()
            s.add(extra)
        r = s.check()
        if r == z3.sat:
            self._model_cache = (list(st.pc), s.model())
        if extra is not None:
            s.pop()
        self.nqueries += 1
        dt = time.time() - t0
        self.solver_time += dt
        if dt > 2 and os.environ.get('IRSYM_DEBUG'):
            print('   slow feasibility check %.1fs pc=%d result=%s' % (dt, len(st.pc), r), flush=True)
        if r == z3.unknown:
            # the per-check time limit was hit: treat the path as feasible (an over-approximation: more paths are
            # explored, what is really reachable is decided by the global query / the obligation check)
            self.unknown_checks += 1
            return True
        return r == z3.sat

    def model(self, st, extra=None):
        s = self.solver
        self._sync(st.pc)
        s.push()
        if extra is not None:
            s.add(extra)
        r = s.check()
        m = s.model() if r == z3.sat else None
        s.pop()
        self.nqueries += 1
        return m

    def values_of(self, st, v, limit=24):
        """All feasible concrete values of term v under st.pc (<= limit)."""
        vals = []
        s = self.solver
        # cheap routes first: a merged pointer is an if-then-else tree over constants (its leaves are the
        # candidates); a term over read symbols with recorded finite domains is evaluated for each combination
        lv = self.candidates(v) if not isinstance(v, int) else None
        if lv is not None and len(lv) <= limit:
            return [x for x in sorted(lv) if self.feasible(st, v == x)]
        self._sync(st.pc)
        s.push()
        try:
            while True:
                r = s.check()
                self.nqueries += 1
                if r == z3.unknown:
                    raise Unsupported('solver time limit while enumerating the values of an address/selector')
                if r != z3.sat:
                    break
                x = s.model().eval(v, model_completion=True).as_long()
                vals.append(x)
                if len(vals) > limit:
                    raise Unsupported('more than %d feasible values for an address/selector' % limit)
                s.add(v != x)
        finally:
            s.pop()
        return vals

    # ------------------------------------------------------------------ memory access
    def _lookup(self, st, addr, size, what, ins):
        o = st.find_obj(addr)
        if o is None or addr + size > o.base + o.size:
            raise EngineError('invalid-access', '%s of %d bytes at %#x hits no object (%s)' % (
                what, size, addr, self.loc(ins)))
        if not st.live.get(o.id, False):
            raise EngineError('use-after-free', '%s of %d bytes at %#x in freed %r (%s)' % (
                what, size, addr, o, self.loc(ins)))
        return o

    def mem_read(self, st, addr, size, ins=None, obj=None):
        o = obj or self._lookup(st, addr, size, 'read', ins)
        cells = st.mem[o.id]
        off = addr - o.base
        c = cells.get(off)
        if c is not None and c[0] == size:
            return c[1]
        # assemble bytewise
        parts = []
        for b in range(off, off + size):
            parts.append(self._read_byte(cells, b))
        if all(isinstance(p, int) for p in parts):
            v = 0
            for i, p in enumerate(parts):
                v |= p << (8 * i)
            return v
        return simp(z3.Concat(*[as_bv(p, 8) for p in reversed(parts)])) if size > 1 else parts[0]

    @staticmethod
    def _read_byte(cells, b):
        for back in range(0, 64):
            c = cells.get(b - back)
            if c is not None:
                sz, v = c
                if back < sz:
                    if isinstance(v, int):
                        return (v >> (8 * back)) & 0xff
                    return simp(z3.Extract(8 * back + 7, 8 * back, v))
                break
        return fresh('uninit', 8)

    def mem_write(self, st, addr, size, val, ins=None, obj=None):
        o = obj or self._lookup(st, addr, size, 'write', ins)
        if o.kind == 'const':
            raise EngineError('invalid-access', 'write to constant %r (%s)' % (o, self.loc(ins)))
        cells = st.cells(o.id, True)
        off = addr - o.base
        c = cells.get(off)
        if c is not None and c[0] == size:
            cells[off] = (size, val)
            return
        # split overlapping cells into bytes
        for b in range(max(0, off - 63), off + size):
            c = cells.get(b)
            if c is None:
                continue
            sz, v = c
            if b + sz <= off or b >= off + size:
                continue
            if b >= off and b + sz <= off + size:
                del cells[b]
                continue
            del cells[b]
            for i in range(sz):
                if not (off <= b + i < off + size):
                    if isinstance(v, int):
                        cells[b + i] = (1, (v >> (8 * i)) & 0xff)
                    else:
                        cells[b + i] = (1, simp(z3.Extract(8 * i + 7, 8 * i, v)))
        cells[off] = (size, val)

    def loc(self, ins):
        if ins is None or ins.dbg is None or ins.fn is None:
            return '?'
        return ins.fn.module.srcloc(ins.dbg)

    # ------------------------------------------------------------------ allocation
    def alloc_heap(self, st, size, align, name='heap'):
        t = st.thread
        cur = st.next_heap.get(t, HEAP_BASE + HEAP_STRIDE * t)
        align = max(align, 16)
        base = (cur + align - 1) // align * align
        st.next_heap[t] = base + max(size, 1) + 64
        o = Obj(next(_obj_ctr), base, size, 'heap', name, t)
        st.add_obj(o)
        return o

    def alloc_stack(self, st, size, align, name):
        t = st.thread
        cur = st.next_stack.get(t, STACK_BASE + STACK_STRIDE * t)
        align = max(align, 8)
        base = (cur + align - 1) // align * align
        st.next_stack[t] = base + max(size, 1) + 16
        o = Obj(next(_obj_ctr), base, size, 'stack', name, t)
        st.add_obj(o)
        return o

    def tls_instance(self, st, m, name):
        key = self._gkey(m, name)
        if key is None or key not in self.tls_templates:
            raise Unsupported('threadlocal.address of non-TLS @%s' % name)
        t = st.thread
        oid = st.tls_inst.get((t, key))
        if oid is not None:
            return st.objs[oid].base
        gm, g, size, al = self.tls_templates[key]
        idx = sorted(self.tls_templates).index(key)
        base = TLS_BASE + TLS_STRIDE * t + 0x1000 * idx
        o = Obj(next(_obj_ctr), base, size, 'tls', name, t)
        st.add_obj(o)
        st.tls_inst[(t, key)] = o.id
        self._init_value(st, gm, o, 0, g.ty, g.init)
        return base

    # ------------------------------------------------------------------ operands
    def val(self, st, fr, m, v, ty=None):
        k = v[0]
        if k == 'local':
            try:
                return fr.regs[v[1]]
            except KeyError:
                raise Unsupported('use of undefined register %%%s in %s' % (v[1], fr.fn.name))
        if k == 'int':
            if ty is not None and ty.kind == 'int':
                return v[1] & mask(ty.bits)
            return v[1]
        if k == 'null':
            return 0
        if k == 'undef':
            if ty is not None:
                rt = m.resolve(ty)
                if rt.kind == 'struct':
                    return tuple(self.val(st, fr, m, ('undef',), e) for e in rt.elems)
                if rt.kind == 'int':
                    if rt.bits == 1:
                        return 0
                    return fresh('undef', rt.bits)
                if rt.kind == 'ptr':
                    return fresh('undef', 64)
            return 0
        if k == 'zero':
            rt = m.resolve(ty)
            if rt.kind == 'struct':
                return tuple(self.val(st, fr, m, ('zero',), e) for e in rt.elems)
            return 0
        if k == 'global':
            name = v[1]
            key = self._gkey(m, name)
            if key is not None:
                if key in self.global_addr:
                    return self.global_addr[key]
                return self.tls_instance(st, m, name)
            if name in self.func_addr:
                return self.func_addr[name]
            if name in self.extern_addr:
                return self.extern_addr[name]
            raise Unsupported('unknown global @%s' % name)
        if k in ('inttoptr', 'ptrtoint'):
            return self.val(st, fr, m, v[1])
        if k == 'gepc':
            a = self.val(st, fr, m, v[2])
            return a + self.gep_offset(m, v[1], [self.val(st, fr, m, i) for i in v[3]])
        if k == 'agg':
            return tuple(self.val(st, fr, m, x, t) for t, x in v[1])
        raise Unsupported('operand %r' % (v,))

    # ------------------------------------------------------------------ arithmetic
    def binop(self, op, a, b, bits):
        if bits == 1 and (not is_conc(a) or not is_conc(b)):
            if op in ('and', 'mul'):
                return simp(z3.And(as_bool(a), as_bool(b)))
            if op == 'or':
                return simp(z3.Or(as_bool(a), as_bool(b)))
            if op in ('xor', 'add', 'sub'):
                return simp(z3.Xor(as_bool(a), as_bool(b)))
            raise Unsupported('i1 %s' % op)
        if is_conc(a) and is_conc(b):
            M = mask(bits)
            if op == 'add':
                return (a + b) & M
            if op == 'sub':
                return (a - b) & M
            if op == 'mul':
                return (a * b) & M
            if op == 'and':
                return a & b
            if op == 'or':
                return a | b
            if op == 'xor':
                return a ^ b
            if op == 'shl':
                return (a << b) & M if b < bits else 0
            if op == 'lshr':
                return a >> b if b < bits else 0
            if op == 'ashr':
                return (to_signed(a, bits) >> min(b, bits - 1)) & M
            if op == 'udiv':
                if b == 0:
                    raise EngineError('ub', 'division by zero')
                return a // b
            if op == 'urem':
                if b == 0:
                    raise EngineError('ub', 'division by zero')
                return a % b
            if op == 'sdiv':
                if b == 0:
                    raise EngineError('ub', 'division by zero')
                sa, sb = to_signed(a, bits), to_signed(b, bits)
                q = abs(sa) // abs(sb)
                if (sa < 0) != (sb < 0):
                    q = -q
                return q & M
            if op == 'srem':
                if b == 0:
                    raise EngineError('ub', 'division by zero')
                sa, sb = to_signed(a, bits), to_signed(b, bits)
                r = abs(sa) % abs(sb)
                if sa < 0:
                    r = -r
                return r & M
            raise Unsupported('binop ' + op)
        x, y = as_bv(a, bits), as_bv(b, bits)
        if op == 'add':
            r = x + y
        elif op == 'sub':
            r = x - y
        elif op == 'mul':
            r = x * y
        elif op == 'and':
            r = x & y
        elif op == 'or':
            r = x | y
        elif op == 'xor':
            r = x ^ y
        elif op == 'shl':
            r = x << y
        elif op == 'lshr':
            r = z3.LShR(x, y)
        elif op == 'ashr':
            r = x >> y
        elif op == 'udiv':
            r = z3.UDiv(x, y)
        elif op == 'urem':
            r = z3.URem(x, y)
        elif op == 'sdiv':
            r = x / y
        elif op == 'srem':
            r = z3.SRem(x, y)
        else:
            raise Unsupported('binop ' + op)
        return simp(r)

    def icmp(self, pred, a, b, bits):
        if is_conc(a) and is_conc(b):
            if pred == 'eq':
                return int(a == b)
            if pred == 'ne':
                return int(a != b)
            if pred[0] == 'u':
                x, y = a, b
            else:
                x, y = to_signed(a, bits), to_signed(b, bits)
            p = pred[1:]
            return int({'gt': x > y, 'ge': x >= y, 'lt': x < y, 'le': x <= y}[p])
        if bits == 1:
            x, y = as_bool(a), as_bool(b)
            if pred == 'eq':
                return simp(x == y)
            if pred == 'ne':
                return simp(z3.Xor(x, y))
            x, y = as_bv(a, 1), as_bv(b, 1)
        else:
            x, y = as_bv(a, bits), as_bv(b, bits)
        if pred == 'eq':
            r = x == y
        elif pred == 'ne':
            r = x != y
        elif pred == 'ugt':
            r = z3.UGT(x, y)
        elif pred == 'uge':
            r = z3.UGE(x, y)
        elif pred == 'ult':
            r = z3.ULT(x, y)
        elif pred == 'ule':
            r = z3.ULE(x, y)
        elif pred == 'sgt':
            r = x > y
        elif pred == 'sge':
            r = x >= y
        elif pred == 'slt':
            r = x < y
        elif pred == 'sle':
            r = x <= y
        else:
            raise Unsupported('icmp ' + pred)
        return simp(r)

    def cast(self, op, v, fb, tb):
        if op in ('ptrtoint', 'inttoptr', 'bitcast'):
            if fb == tb:
                return v
            if tb < fb:
                op = 'trunc'
            else:
                op = 'zext'
        if is_conc(v):
            if op == 'trunc':
                return v & mask(tb)
            if op == 'zext':
                return v
            if op == 'sext':
                return to_signed(v, fb) & mask(tb)
        if op == 'trunc':
            if tb == 1:
                return simp(z3.Extract(0, 0, as_bv(v, fb)) == 1)
            return simp(z3.Extract(tb - 1, 0, as_bv(v, fb)))
        if op == 'zext':
            if fb == 1:
                return simp(as_bv(v, tb)) if not z3.is_bool(v) else simp(z3.If(v, z3.BitVecVal(1, tb), z3.BitVecVal(0, tb)))
            return simp(z3.ZeroExt(tb - fb, as_bv(v, fb)))
        if op == 'sext':
            if fb == 1:
                return simp(z3.If(as_bool(v), z3.BitVecVal(mask(tb), tb), z3.BitVecVal(0, tb)))
            return simp(z3.SignExt(tb - fb, as_bv(v, fb)))
        raise Unsupported('cast ' + op)

    @staticmethod
    def bits_of(m, ty):
        ty = m.resolve(ty)
        if ty.kind == 'int':
            return ty.bits
        if ty.kind == 'ptr':
            return 64
        raise Unsupported('bits of %r' % ty)

    # ------------------------------------------------------------------ events / obligations
    def emit(self, st, kind, addr, size, rval, wval, ordering, atomic, ins, **kw):
        ev = Event(id=next(_ev_ctr), thread=st.thread, po=st.po, kind=kind, addr=addr, size=size,
                   rval=rval, wval=wval, ordering=ordering, atomic=atomic, guard=tuple(st.pc), ins=ins)
        for k, v in kw.items():
            setattr(ev, k, v)
        st.po += 1
        st.events.append(ev)
        return ev

    def oblige(self, st, kind, cond, ident, ins, msg=''):
        ob = Obligation(kind, tuple(st.pc), cond, ident, ins, st.thread, st.po, msg)
        st.oblig.append(ob)
        return ob

    # ------------------------------------------------------------------ exploration
    def explore(self, entry, st, args=(), env=None, thread=None):
        """Run function `entry` from state `st` (consumed). Returns list of leaf states."""
        if env is None:
            env = Env()
        self.env = env
        fn = self.functions.get(entry)
        if fn is None:
            raise Unsupported('entry function %s not found' % entry)
        if thread is not None:
            st.thread = thread
        fr = Frame(fn)
        for (ty, name), a in zip(fn.params, args):
            fr.regs[name] = a
        st.frames = [fr]
        st.status = 'running'
        st.retval = None
        st.nsteps = 0
        leaves = []
        import sys
        if sys.getrecursionlimit() < 5000:
            sys.setrecursionlimit(5000)
        self._exec(st, None, leaves)
        return leaves

    def _exec(self, st, stop, leaves):
        """Run `st` and everything it forks into until each path is parked at `stop` or has terminated
        (terminated paths are appended to `leaves`). With auto_merge the children of every fork are run
        to the fork's join point (the immediate post-dominator of a branch, the next instruction for
        value/outcome forks) and merged there, so paths do not multiply."""
        parked = []
        work = [st]
        self.stats['execs'] = self.stats.get('execs', 0) + 1
        global LAST_ENGINE
        LAST_ENGINE = self
        while work:
            s = work.pop()
            s.stop = stop
            try:
                site, forks = self.run(s)
            except EngineError as e:
                # engine-level violation on a feasible path
                self.oblige(s, 'engine', None, e.kind, None, e.msg)
                s.status = 'engine-error'
                site, forks = None, None
            if forks:
                self.stats['forks'] += len(forks) - 1
                for f_ in forks:
                    f_.nforks += 1
                join = self.join_for(site) if self.auto_merge else None
                if join is None:
                    work.extend(forks)
                    continue
                got = []
                for c in forks:
                    c.status = 'running' if c.status == 'parked' else c.status
                    got.extend(self._exec(c, join, leaves))
                for m in self.merge_states(got):
                    m.status = 'running'
                    work.append(m)
            elif s.status == 'parked':
                parked.append(s)
            else:
                leaves.append(s)
                self.stats['paths'] += 1
                if len(leaves) > self.max_paths:
                    import collections
                    cnt = collections.Counter(l.status for l in leaves)
                    msgs = collections.Counter((o.kind, str(o.msg)[:90]) for l in leaves[-300:] for o in l.oblig[-1:])
                    raise Unsupported('more than %d paths; statuses %s; last obligations %s' % (self.max_paths, dict(cnt), msgs.most_common(3)))
        return parked

    def join_for(self, site):
        """Where do the children of a fork at `site` come together again?"""
        uid, fn, block, idx, ins = site
        if ins.op in ('br', 'switch'):
            j = self.ipdom(fn, block)
            if j is None:
                return (uid, None, 'ret')
            blk = fn.blocks[j]
            k = 0
            while k < len(blk) and blk[k].op == 'phi':
                k += 1
            return (uid, j, k)
        if ins.op == 'invoke':
            return None
        return (uid, block, idx + 1)

    def ipdom(self, fn, block):
        """Immediate post-dominator of `block` in fn's CFG (None: only the function exit)."""
        pd = self._ipdom_cache.get(fn.name)
        if pd is None:
            pd = self._ipdom_cache[fn.name] = compute_ipdom(fn)
        return pd.get(block)

    # ------------------------------------------------------------------ state merging at verif_merge()
    def merge_states(self, group):
        """Merge the states parked at the same merge point. States that differ in shape (frames, object
        liveness) are kept apart."""
        buckets = {}
        for s in group:
            sig = (tuple((f.fn.name, f.block, f.idx, tuple(f.allocas)) for f in s.frames),
                   tuple(sorted(k for k, v in s.live.items() if v)), s.thread,
                   tuple(sorted((t, tuple(v)) for t, v in s.tls_dtors.items())), tuple(sorted(s.exiting)),
                   tuple(sorted(s.tls_inst.items())))
            buckets.setdefault(sig, []).append(s)
        out = []
        if len(buckets) > 1 and os.environ.get('IRSYM_DEBUG'):
            sigs = list(buckets)
            diff = [i for i in range(len(sigs[0])) if any(sg[i] != sigs[0][i] for sg in sigs[1:])]
            self.stats['unmerged'] = self.stats.get('unmerged', 0) + 1
            if self.stats['unmerged'] <= 5:
                a_, b_ = sigs[0], sigs[1]
                for i in diff:
                    da = set(a_[i]) ^ set(b_[i]) if isinstance(a_[i], tuple) else (a_[i], b_[i])
                    print('   UNMERGED: signature component', i, 'differs:', str(da)[:300], flush=True)
        for sig, states in buckets.items():
            if len(states) == 1:
                out.append(states[0])
            else:
                out.append(self._merge(states))
                self.stats['merges'] = self.stats.get('merges', 0) + len(states) - 1
        return out

    def _merge(self, states):
        n = len(states)
        # common pc prefix
        k = 0
        m0 = min(len(s.pc) for s in states)
        while k < m0 and all(s.pc[k] is states[0].pc[k] for s in states[1:]):
            k += 1
        conds = []
        for s in states:
            suf = s.pc[k:]
            conds.append(z3.And(*suf) if len(suf) > 1 else (suf[0] if suf else z3.BoolVal(True)))

        def mix(vals):
            """ite over the path conditions, grouping equal values."""
            first = vals[0]
            k0 = self._vkey(first)
            same = True
            for v in vals[1:]:
                if v is not first and self._vkey(v) != k0:
                    same = False
                    break
            if same:
                return first
            if isinstance(first, tuple):
                return tuple(mix([v[i] for v in vals]) for i in range(len(first)))
            gmap = {}
            groups = []
            for v, c in zip(vals, conds):
                key_ = self._vkey(v)
                g_ = gmap.get(key_)
                if g_ is None:
                    g_ = gmap[key_] = (v, [c])
                    groups.append(g_)
                else:
                    g_[1].append(c)
            # width
            bits = None
            isbool = False
            for v, _ in groups:
                if not isinstance(v, int):
                    if z3.is_bool(v):
                        isbool = True
                    else:
                        bits = v.size()
            res = None
            for v, cs in reversed(groups):
                if isbool or (bits is None and all(isinstance(g_[0], int) and g_[0] in (0, 1) for g_ in groups) and False):
                    term = as_bool(v)
                else:
                    term = as_bv(v, bits or 64)
                if res is None:
                    res = term
                else:
                    res = z3.If(z3.Or(*cs) if len(cs) > 1 else cs[0], term, res)
            return simp(res)

        base = states[0]
        ms = base.fork()
        ms.pc = list(base.pc[:k])
        disj = simp(z3.Or(*conds))
        if not (isinstance(disj, int) and disj == 1):
            ms.pc.append(as_bool(disj))
        # registers
        for fi, fr in enumerate(ms.frames):
            names = set()
            for s in states:
                names |= set(s.frames[fi].regs)
            for nm in names:
                vals = []
                ok = True
                for s in states:
                    if nm not in s.frames[fi].regs:
                        ok = False
                        break
                    vals.append(s.frames[fi].regs[nm])
                if not ok:
                    fr.regs.pop(nm, None)     # defined on some paths only: dead after the join
                    continue
                fr.regs[nm] = mix(vals)
            vis = {}
            for s in states:
                for lab, ent in s.frames[fi].visits.items():
                    cur = vis.get(lab)
                    if cur is None or ent[0] > cur[0]:
                        vis[lab] = ent
            fr.visits = vis
        # memory
        oids = set()
        for s in states:
            oids |= set(s.mem)
        for oid in oids:
            dicts = [s.mem.get(oid) for s in states]
            if all(d is dicts[0] for d in dicts):
                continue
            if not any(s.live.get(oid, False) for s in states):
                # dead everywhere (popped stack frames): content is irrelevant
                src = next(s for s in states if oid in s.mem)
                ms.objs[oid] = src.objs[oid]
                if oid not in base.objs:
                    bisect.insort(ms.bases, (src.objs[oid].base, oid))
                ms.live[oid] = False
                ms.mem[oid] = src.mem[oid]
                continue
            present = [d for d in dicts if d is not None]
            if len(present) < n:
                # object exists on some paths only (allocated after the segment start): keep the first view
                src = next(s for s in states if oid in s.mem)
                ms.objs[oid] = src.objs[oid]
                if oid not in base.objs:
                    bisect.insort(ms.bases, (src.objs[oid].base, oid))
                ms.live[oid] = src.live.get(oid, False)
                if len(present) > 1 and not all(d is present[0] for d in present):
                    raise Unsupported('merge: object %r differs between paths that allocated it separately' % src.objs[oid])
                ms.mem[oid] = dict(present[0])
                ms.owned.add(oid)
                continue
            offs = set()
            for d in dicts:
                offs |= set(d)
            newd = {}
            for off in offs:
                ents = [d.get(off) for d in dicts]
                if any(e is None for e in ents) or len(set(e[0] for e in ents)) != 1:
                    # partially written / different granularity: read bytewise through each view
                    sz = max(e[0] for e in ents if e is not None)
                    vals = []
                    for s in states:
                        vals.append(self.mem_read(s, s.objs[oid].base + off, sz, None, s.objs[oid]))
                    newd[off] = (sz, mix(vals))
                    continue
                newd[off] = (ents[0][0], mix([e[1] for e in ents]))
            ms.mem[oid] = newd
            ms.owned.add(oid)
        # logs
        seen = set()
        evs = []
        for s in states:
            for e in s.events:
                if e.id not in seen:
                    seen.add(e.id)
                    evs.append(e)
        ms.events = evs
        seen = set()
        obl = []
        for s in states:
            for o in s.oblig:
                if id(o) not in seen:
                    seen.add(id(o))
                    obl.append(o)
        ms.oblig = obl
        seen = set()
        mk = []
        for s in states:
            for x in s.marks:
                if id(x) not in seen:
                    seen.add(id(x))
                    mk.append(x)
        ms.marks = mk
        cov = {}
        for s in states:
            for cid, gl in s.covers.items():
                cov.setdefault(cid, [])
                for g_ in gl:
                    if not any(g_ is h for h in cov[cid]):
                        cov[cid].append(g_)
        ms.covers = cov
        ms.po = max(s.po for s in states)
        ms.nsteps = max(s.nsteps for s in states)
        ms.spurious = max(s.spurious for s in states)
        ms.nforks = max(s.nforks for s in states)
        for t in set().union(*[set(s.next_heap) for s in states]):
            ms.next_heap[t] = max(s.next_heap.get(t, 0) for s in states)
        for t in set().union(*[set(s.next_stack) for s in states]):
            ms.next_stack[t] = max(s.next_stack.get(t, 0) for s in states)
        for s in states:
            for key_, oid in s.tls_inst.items():
                ms.tls_inst.setdefault(key_, oid)
        return ms

    @staticmethod
    def _same(a, b):
        if a is b:
            return True
        if isinstance(a, int) or isinstance(b, int):
            return isinstance(a, int) and isinstance(b, int) and a == b
        if isinstance(a, tuple) or isinstance(b, tuple):
            return (isinstance(a, tuple) and isinstance(b, tuple) and len(a) == len(b)
                    and all(Engine._same(x, y) for x, y in zip(a, b)))
        return a.get_id() == b.get_id()

    @staticmethod
    def _vkey(v):
        if isinstance(v, int):
            return ('i', v)
        if isinstance(v, tuple):
            return ('t',) + tuple(Engine._vkey(x) for x in v)
        return ('z', v.get_id())

    def run(self, st):
        """Run st until it terminates or parks (returns (None, None)) or forks (returns (site, states))."""
        while st.status == 'running':
            fr = st.frames[-1]
            stop = st.stop
            if stop is not None and fr.uid == stop[0] and fr.block == stop[1] and fr.idx == stop[2]:
                st.status = 'parked'
                return None, None
            block = fr.fn.blocks[fr.block]
            ins = block[fr.idx]
            site = (fr.uid, fr.fn, fr.block, fr.idx, ins)
            fr.idx += 1
            st.nsteps += 1
            self.stats['instrs'] += 1
            if st.nsteps > self.max_steps:
                self.oblige(st, 'bound', None, 'max-steps', ins, 'step budget exhausted')
                st.status = 'bound'
                return None, None
            r = self.step(st, fr, ins)
            if r is not None:
                return site, r
        return None, None

    def goto(self, st, fr, label, ins):
        ent = fr.visits.get(label)
        if ent is None:
            fr.visits[label] = (1, st.nforks, 0)
        else:
            n, plen, sym = ent
            n += 1
            if st.nforks != plen:
                sym += 1        # the path forked since the last visit: a "real" (symbolic) iteration
            fr.visits[label] = (n, st.nforks, sym)
            lb = self.loop_bound
            if sym > lb and self.loop_bound_overrides:
                # the loop is identified by its header block (the block being re-entered), not by the branch that
                # jumps back to it (which may be inlined code from elsewhere)
                hdr = fr.fn.blocks[label]
                hins = next((i_ for i_ in hdr if i_.op != 'phi' and i_.dbg), ins)
                frames_ = self.loc(hins).split(' <- ')
                where = next((f_ for f_ in frames_ if not f_.startswith('library/')), frames_[0])
                for pat, b_ in self.loop_bound_overrides:
                    if pat in where:
                        lb = b_
                        break
            if sym > lb or n > self.concrete_loop_bound:
                # 'spin': the loop went round on concrete values only (nothing symbolic decided in between)
                self.oblige(st, 'bound', None, '%s:%s:%s' % ('loop' if sym > lb else 'spin', fr.fn.name[-24:], label), ins,
                            'loop bound (%d symbolic / %d total iterations) exceeded at %s' % (
                                lb, self.concrete_loop_bound, self.loc(ins)))
                st.status = 'bound'
                return
        fr.prev = fr.block
        fr.block = label
        fr.idx = 0
        # phis are evaluated simultaneously
        block = fr.fn.blocks[label]
        m = fr.fn.module
        newvals = []
        i = 0
        while i < len(block) and block[i].op == 'phi':
            p = block[i]
            for v, lab in p.args:
                if lab == fr.prev:
                    newvals.append((p.dest, self.val(st, fr, m, v, p.ty)))
                    break
            else:
                raise Unsupported('phi without incoming for %s' % fr.prev)
            i += 1
        for d, v in newvals:
            fr.regs[d] = v
        fr.idx = i

    def branch(self, st, fr, cond, tl, fl, ins):
        """Conditional branch; returns forks or None."""
        c = simp(cond) if not is_conc(cond) else cond
        if is_conc(c):
            self.goto(st, fr, tl if c else fl, ins)
            return None
        cb = as_bool(c)
        ft = self.feasible(st, cb)
        # the path condition itself is feasible, so if one side is not the other one is
        ff = self.feasible(st, z3.Not(cb)) if ft else True
        if ft and ff:
            s2 = st.fork()
            st.pc.append(cb)
            self.goto(st, st.frames[-1], tl, ins)
            s2.pc.append(z3.Not(cb))
            self.goto(s2, s2.frames[-1], fl, ins)
            return [st, s2]
        if ft:
            st.pc.append(cb)
            self.goto(st, fr, tl, ins)
        elif ff:
            st.pc.append(z3.Not(cb))
            self.goto(st, fr, fl, ins)
        else:
            st.status = 'infeasible'
        return None

    def concretize(self, st, v, ins, what='address'):
        """Returns None if v concrete-izable in place (returns value via st) else forks.
        Result: list of (state, concrete value)."""
        if is_conc(v):
            return [(st, v)]
        v = simp(v)
        if is_conc(v):
            return [(st, v)]
        try:
            vals = self.values_of(st, v)
        except Unsupported as e:
            if has_uninit(v):
                # an address computed from memory that was never initialised on this path: only reachable through
                # a combination of reads that the global consistency check has to rule out
                raise EngineError('uninit-pointer', 'address depends on uninitialised memory at %s' % self.loc(ins))
            nodom = []
            for ev in st.events[-400:]:
                if ev.rval is not None and not isinstance(ev.rval, int) and ev.rval.get_id() not in self.sym_domain:
                    try:
                        if str(ev.rval) in str(v)[:4000]:
                            nodom.append('%s@%#x(%s)' % (ev.rval, ev.addr or 0, self.loc(ev.ins).split(' <- ')[-1][:60]))
                    except Exception:
                        pass
            raise Unsupported('%s at %s; symbols without a finite domain in the term: %s' % (e, self.loc(ins), nodom[:4]))
        if not vals:
            st.status = 'infeasible'
            return []
        out = []
        for i, x in enumerate(vals):
            s = st if i == len(vals) - 1 else st.fork()
            s.pc.append(v == x)
            out.append((s, x))
        return out

    # ------------------------------------------------------------------ one instruction
    def step(self, st, fr, ins):
        op = ins.op
        m = fr.fn.module
        regs = fr.regs
        V = self.val
        if self.trace is not None:
            self.trace(st, fr, ins)
        if st.stacks is not None and op in ('load', 'store', 'atomicrmw', 'cmpxchg') and self.cb_point(ins):
            if st.cb_skip:
                st.cb_skip = False
            else:
                r = self.cb_decide(st)
                if r is not None:
                    return r
        if op == 'load':
            return self.do_load(st, fr, ins)
        if op == 'store':
            return self.do_store(st, fr, ins)
        if op == 'getelementptr':
            base = V(st, fr, m, ins.args[0])
            idx = [V(st, fr, m, iv, it) for it, iv in ins.args[1:]]
            # sign-extend narrower indices
            idx2 = []
            for (it, iv), x in zip(ins.args[1:], idx):
                b = self.bits_of(m, it)
                if b < 64:
                    x = self.cast('sext', x, b, 64)
                idx2.append(x)
            off = self.gep_offset(m, ins.extra['base_ty'], idx2)
            if is_conc(base) and is_conc(off):
                regs[ins.dest] = (base + off) & mask(64)
            else:
                regs[ins.dest] = simp(as_bv(base, 64) + as_bv(off, 64))
            return None
        if op == 'icmp':
            t = ins.extra['opty']
            a = V(st, fr, m, ins.args[0], t)
            b = V(st, fr, m, ins.args[1], t)
            regs[ins.dest] = self.icmp(ins.extra['pred'], a, b, self.bits_of(m, t))
            return None
        if op == 'br':
            tg = ins.extra['targets']
            if len(tg) == 1:
                self.goto(st, fr, tg[0], ins)
                return None
            c = V(st, fr, m, ins.args[0], IntTy(1))
            return self.branch(st, fr, c, tg[0], tg[1], ins)
        if op in ('call', 'invoke'):
            return self.do_call(st, fr, ins)
        if op == 'phi':
            raise Unsupported('phi not at block start')
        if op == 'ret':
            rv = V(st, fr, m, ins.args[0], ins.ty) if ins.args else None
            return self.do_ret(st, rv)
        if op in ('add', 'sub', 'mul', 'and', 'or', 'xor', 'shl', 'lshr', 'ashr', 'udiv', 'urem', 'sdiv', 'srem'):
            bits = self.bits_of(m, ins.ty)
            a = V(st, fr, m, ins.args[0], ins.ty)
            b = V(st, fr, m, ins.args[1], ins.ty)
            regs[ins.dest] = self.binop(op, a, b, bits)
            return None
        if op in ('trunc', 'zext', 'sext', 'ptrtoint', 'inttoptr', 'bitcast'):
            ft = ins.extra['from']
            a = V(st, fr, m, ins.args[0], ft)
            regs[ins.dest] = self.cast(op, a, self.bits_of(m, ft), self.bits_of(m, ins.ty))
            return None
        if op == 'select':
            c = V(st, fr, m, ins.args[0], IntTy(1))
            a = V(st, fr, m, ins.args[1], ins.ty)
            b = V(st, fr, m, ins.args[2], ins.ty)
            if is_conc(c):
                regs[ins.dest] = a if c else b
            elif isinstance(a, tuple) or isinstance(b, tuple):
                raise Unsupported('select on aggregates with symbolic condition')
            else:
                bits = self.bits_of(m, ins.ty)
                if bits == 1:
                    regs[ins.dest] = simp(z3.If(as_bool(c), as_bool(a), as_bool(b)))
                else:
                    regs[ins.dest] = simp(z3.If(as_bool(c), as_bv(a, bits), as_bv(b, bits)))
            return None
        if op == 'alloca':
            t = ins.extra['alloc_ty']
            o = self.alloc_stack(st, m.size_of(t), ins.extra['align'], '%s.%s' % (fr.fn.name[-20:], ins.dest))
            fr.allocas.append(o.id)
            regs[ins.dest] = o.base
            return None
        if op == 'extractvalue':
            a = V(st, fr, m, ins.args[0], ins.extra['agg_ty'])
            for i in ins.extra['idx']:
                a = a[i]
            regs[ins.dest] = a
            return None
        if op == 'insertvalue':
            a = V(st, fr, m, ins.args[0], ins.extra['agg_ty'])
            idx = ins.extra['idx']
            if len(idx) != 1:
                raise Unsupported('nested insertvalue')
            et = m.resolve(ins.extra['agg_ty']).elems[idx[0]]
            v = V(st, fr, m, ins.args[1], et)
            l = list(a)
            l[idx[0]] = v
            regs[ins.dest] = tuple(l)
            return None
        if op == 'atomicrmw':
            return self.do_rmw(st, fr, ins)
        if op == 'cmpxchg':
            return self.do_cmpxchg(st, fr, ins)
        if op == 'fence':
            self.emit(st, 'F', None, 0, None, None, ins.extra['ordering'], True, ins)
            return None
        if op == 'switch':
            t = ins.extra['opty']
            v = V(st, fr, m, ins.args[0], t)
            cases = ins.extra['cases']
            if is_conc(v):
                bits = self.bits_of(m, t)
                for cv, lab in cases:
                    if (cv & mask(bits)) == v:
                        self.goto(st, fr, lab, ins)
                        return None
                self.goto(st, fr, ins.extra['default'], ins)
                return None
            bits = self.bits_of(m, t)
            out = []
            rest = []
            for cv, lab in cases:
                c = as_bv(v, bits) == (cv & mask(bits))
                rest.append(z3.Not(c))
                if self.feasible(st, c):
                    s = st.fork()
                    s.pc.append(c)
                    self.goto(s, s.frames[-1], lab, ins)
                    out.append(s)
            d = z3.And(*rest) if rest else z3.BoolVal(True)
            if self.feasible(st, d):
                st.pc.append(d)
                self.goto(st, fr, ins.extra['default'], ins)
                out.append(st)
            if not out:
                st.status = 'infeasible'
                return None
            return out if len(out) > 1 or out[0] is not st else None
        if op == 'unreachable':
            raise EngineError('ub', 'reached `unreachable` at %s in %s' % (self.loc(ins), fr.fn.name))
        if op == 'freeze':
            regs[ins.dest] = V(st, fr, m, ins.args[0], ins.ty)
            return None
        if op == 'landingpad':
            regs[ins.dest] = (st.unwinding or 0xdead0000, 0)
            return None
        if op == 'resume':
            return self.do_unwind(st, ins)
        raise Unsupported('opcode %s' % op)

    # ------------------------------------------------------------------ calls / returns
    def do_ret(self, st, rv):
        fr = st.frames.pop()
        for oid in fr.allocas:
            st.live[oid] = False
        if not st.frames:
            if st.stacks is not None and st.cb_pending:
                for t, (after, fn) in sorted(st.cb_pending.items()):
                    if after == st.thread:
                        st.stacks[t] = [Frame(fn)]
                        del st.cb_pending[t]
            if st.stacks:
                return self.cb_finish(st)
            if st.stacks is not None and st.cb_subject is not None:
                # every other thread ran to completion: the subject starts from a quiescent state
                self.cb_freeze(st)
                return None
            st.status = 'done'
            st.retval = rv
            return None
        caller = st.frames[-1]
        if st.stop is not None and st.stop[0] == fr.uid and st.stop[2] == 'ret':
            st.status = 'parked'
        if fr.catch is not None:
            caller.regs[fr.catch] = 0      # verif_try: the function returned normally
        elif fr.ret_dest is not None:
            caller.regs[fr.ret_dest] = rv
        if fr.normal_to is not None:
            self.goto(st, caller, fr.normal_to, None)
        return None

    def do_unwind(self, st, ins):
        """Propagate a panic: pop frames to the nearest invoke with an unwind edge."""
        while st.frames:
            fr = st.frames.pop()
            for oid in fr.allocas:
                st.live[oid] = False
            if not st.frames:
                break
            if fr.catch is not None:
                st.frames[-1].regs[fr.catch] = 1   # verif_try: caught
                st.unwinding = None
                return None
            if fr.unwind_to is not None:
                caller = st.frames[-1]
                self.goto(st, caller, fr.unwind_to, ins)
                return None
        st.status = 'panicked'
        return None

    def start_unwind_here(self, st, fr, ins):
        """A panic raised by an external callee invoked by `ins` in frame fr."""
        if ins.op == 'invoke':
            self.goto(st, fr, ins.extra['unwind'], ins)
            return None
        return self.do_unwind(st, ins)

    def do_call(self, st, fr, ins):
        m = fr.fn.module
        callee = ins.extra['callee']
        if callee[0] == 'global':
            name = callee[1]
        else:
            fa = self.val(st, fr, m, callee)
            if not is_conc(fa):
                raise Unsupported('symbolic function pointer')
            name = self.addr_func.get(fa)
            if name is None:
                raise EngineError('invalid-access', 'indirect call to non-function %#x' % fa)
        args = [self.val(st, fr, m, a, t) for t, a in ins.args if t.kind != 'metadata']
        fn = self.functions.get(name)
        if fn is not None:
            if len(st.frames) > 200:
                raise Unsupported('call depth > 200')
            nf = Frame(fn)
            for (ty, pn), a in zip(fn.params, args):
                nf.regs[pn] = a
            nf.ret_dest = ins.dest
            if ins.op == 'invoke':
                nf.normal_to = ins.extra['normal']
                nf.unwind_to = ins.extra['unwind']
            st.frames.append(nf)
            self.fn_instrs.setdefault(name, 0)
            return None
        for m_ in self.modules:
            if name in m_.bad_functions:
                raise Unsupported('call to %s which is outside the supported IR subset: %s' % (name, m_.bad_functions[name]))
        # external: model
        import models
        r = models.call_external(self, st, fr, ins, name, args)
        if isinstance(r, list):
            return r
        if st.status == 'running' and ins.op == 'invoke' and st.frames and st.frames[-1] is fr and r != 'unwound':
            self.goto(st, fr, ins.extra['normal'], ins)
        return None

    def call_function(self, st, name, args, ret_dest=None):
        """Push a frame for a defined function (used by models e.g. TLS destructors)."""
        fn = self.functions.get(name)
        if fn is None:
            raise Unsupported('function %s not defined in the IR modules' % name)
        nf = Frame(fn)
        for (ty, pn), a in zip(fn.params, args):
            nf.regs[pn] = a
        nf.ret_dest = ret_dest
        st.frames.append(nf)

    # ------------------------------------------------------------------ context-bounded interleaving (cb.py)
    def cb_point(self, ins):
        """Scheduling points = the atomic operations that pass the native gate (conc.gated): crate atomics
        and the harness's HAtomic cells. The native replay can only switch threads there."""
        focus = self.cb_focus
        k = (id(ins), focus)
        r = self._cb_cache.get(k)
        if r is None:
            r = False
            if ins.op in ('atomicrmw', 'cmpxchg') or ins.extra.get('atomic'):
                for fr in self.loc(ins).split(' <- '):
                    if fr.startswith('library/core/src/sync/atomic.rs'):
                        continue
                    if fr.startswith('harness/src/rt.rs'):
                        r = '(peek)' not in fr and '(store_ungated)' not in fr and '(slots_all_empty)' not in fr
                    else:
                        r = fr.startswith('src/')
                    if r and focus is not None:
                        # focused run: scheduling decisions only before the steps of the named source files
                        r = any(fr.startswith(f) for f in focus)
                    break
            self._cb_cache[k] = r
        return r

    def cb_switch(self, st, t):
        st.stacks[st.thread] = st.frames
        st.frames = st.stacks.pop(t)
        st.thread = t
        st.cb_skip = True
        st.cb_switches += 1

    def cb_decide(self, st):
        """The running thread is about to perform a gated atomic step: it goes on, or (budget permitting) it is
        preempted here in favour of any other unfinished thread. The choice is a symbolic scheduling variable."""
        frz = []
        if st.cb_subject is not None:
            # freeze mode: every thread is suspended for ever right here and the subject runs alone
            s3 = st.fork()
            s3.frames[-1].idx -= 1
            self.cb_freeze(s3)
            frz = [s3]
        if st.cb_budget <= 0 or not st.stacks:
            if frz:
                st.cb_skip = True
                st.frames[-1].idx -= 1
                st.sched_fork = frz[0].sched_fork = True
                return [st] + frz
            return None
        sw = fresh('sw', 8)
        out = frz
        for t in sorted(st.stacks):
            s2 = st.fork()
            s2.pc.append(sw == t)
            s2.frames[-1].idx -= 1          # the preempted step is executed when the thread is resumed
            s2.cb_budget -= 1
            self.cb_switch(s2, t)
            out.append(s2)
        st.pc.append(sw == 0)
        st.cb_skip = True
        st.frames[-1].idx -= 1
        for s_ in [st] + out:
            s_.sched_fork = True
        return [st] + out

    def cb_freeze(self, st):
        """Freeze mode (C09): all unfinished threads stop for ever; the subject thread starts and runs alone."""
        tid, fn = st.cb_subject
        st.cb_subject = None
        frozen = sorted(st.stacks)
        if st.frames:
            frozen = sorted(frozen + [st.thread])
        st.cb_frozen = frozen
        st.stacks = {}
        st.frames = [Frame(fn)]
        st.thread = tid
        st.cb_budget = 0
        st.cb_skip = False
        if frozen:
            st.cb_switches += 1
        st.cb_freeze_at = len(st.events)

    def cb_finish(self, st):
        """The running thread's body returned: any other unfinished thread continues (not a preemption)."""
        me = st.thread
        ts = sorted(st.stacks)
        sw = fresh('sw', 8) if len(ts) > 1 else None
        out = []
        if st.cb_subject is not None:
            s3 = st.fork()
            s3.frames = []
            self.cb_freeze(s3)
            out.append(s3)
        for i, t in enumerate(ts):
            s2 = st if i == len(ts) - 1 else st.fork()
            if sw is not None:
                s2.pc.append(sw == t)
            s2.frames = s2.stacks.pop(t)
            s2.thread = t
            s2.cb_skip = True
            out.append(s2)
        for s_ in out:
            s_.sched_fork = True
        return out if len(out) > 1 else None

    # ------------------------------------------------------------------ memory instructions
    def shared_kind(self, obj):
        return obj.kind in ('global', 'heap')

    def do_load(self, st, fr, ins):
        m = fr.fn.module
        a = self.val(st, fr, m, ins.args[0])
        rt = m.resolve(ins.ty)
        if rt.kind not in ('int', 'ptr'):
            raise Unsupported('load of aggregate %r' % rt)
        size = m.size_of(rt)
        bits = self.bits_of(m, rt)
        forks = self.concretize(st, a, ins)
        if len(forks) != 1 or forks[0][0] is not st or not is_conc(a):
            # re-execute this instruction in each fork with the address pinned
            out = []
            for s, x in forks:
                f2 = s.frames[-1]
                self._pin(f2, ins.args[0], x)
                f2.idx -= 1
                out.append(s)
            return out if out else None
        v = self.read_cell(st, a, size, ins.extra['ordering'], ins.extra['atomic'], ins)
        if bits < size * 8:
            v = self.cast('trunc', v, size * 8, bits) if not (is_conc(v)) else v & mask(bits)
        md = ins.extra.get('md')
        if md and '!range' in md and not is_conc(v):
            pass  # range metadata is not assumed
        fr.regs[ins.dest] = v
        return None

    @staticmethod
    def _pin(fr, operand, x):
        if operand[0] == 'local':
            fr.regs[operand[1]] = x

    def do_store(self, st, fr, ins):
        m = fr.fn.module
        rt = m.resolve(ins.ty)
        if rt.kind not in ('int', 'ptr'):
            raise Unsupported('store of aggregate %r' % rt)
        v = self.val(st, fr, m, ins.args[0], ins.ty)
        a = self.val(st, fr, m, ins.args[1])
        size = m.size_of(rt)
        bits = self.bits_of(m, rt)
        forks = self.concretize(st, a, ins)
        if len(forks) != 1 or forks[0][0] is not st or not is_conc(a):
            out = []
            for s, x in forks:
                f2 = s.frames[-1]
                self._pin(f2, ins.args[1], x)
                f2.idx -= 1
                out.append(s)
            return out if out else None
        if bits < size * 8:
            v = self.cast('zext', v, bits, size * 8)
        elif z3.is_bool(v) if not is_conc(v) else False:
            v = as_bv(v, size * 8)
        self.write_cell(st, a, size, v, ins.extra['ordering'], ins.extra['atomic'], ins)
        return None

    def read_cell(self, st, addr, size, ordering, atomic, ins, kind='R'):
        """Read with event logging and (concurrent mode) symbolic value from other threads."""
        env = self.env
        o = st.find_obj(addr)
        if o is None and env.concurrent:
            fo = env.foreign(addr)
            if fo is not None:
                ow = env.other_writes.get(addr)
                if ow is None or ow[2] != size:
                    raise EngineError('invalid-access', 'read of foreign cell %#x never written (or size mismatch) %s' % (addr, self.loc(ins)))
                dom = self._domain_set(None, ow, size)
                if dom is not None and len(dom) == 1:
                    v1 = next(iter(dom))
                    self.emit(st, kind, addr, size, v1, None, ordering, atomic, ins)
                    return v1
                s = fresh('r', size * 8)
                self.emit(st, kind, addr, size, s, None, ordering, atomic, ins)
                self._domain(st, s, None, ow, size)
                return s
        o = self._lookup(st, addr, size, 'read', ins)
        own = self.mem_read(st, addr, size, ins, o)
        if o.kind in ('global', 'heap'):
            ow = env.other_writes.get(addr) if env.concurrent else None
            if ow is not None:
                if ow[2] != size:
                    raise Unsupported('mixed-size access to shared cell %#x' % addr)
                dom = self._domain_set(own, ow, size)
                if dom is not None and len(dom) == 1:
                    # every write any thread can make to this cell stores the same value: no symbol needed
                    v1 = next(iter(dom))
                    self.emit(st, kind, addr, size, v1, None, ordering, atomic, ins)
                    return v1
                s = fresh('r', size * 8)
                self.emit(st, kind, addr, size, s, None, ordering, atomic, ins)
                self._domain(st, s, own, ow, size)
                return s
            self.emit(st, kind, addr, size, own, None, ordering, atomic, ins, local=True)
        elif self.log_all_atomics and atomic:
            self.emit(st, kind, addr, size, own, None, ordering, atomic, ins, local=True)
        return own

    def _domain_set(self, own, ow, size):
        """Set of concrete values a read of the cell can return (None: unknown / unbounded)."""
        vals, top, _ = ow
        if top:
            return None
        opts = set(vals)
        if own is not None:
            if is_conc(own):
                opts.add(own)
            elif has_uninit(own, 200):
                pass      # never initialised by this thread: only the other threads' values can be read
            else:
                lv = self.candidates(as_bv(own, size * 8))
                if lv is None:
                    return None
                opts |= lv
        return opts or None

    def _domain(self, st, s, own, ow, size):
        opts = self._domain_set(own, ow, size)
        if opts is None:
            return
        self.sym_domain[s.get_id()] = (s, frozenset(opts))
        if len(opts) == 1:
            st.pc.append(s == next(iter(opts)))
        else:
            st.pc.append(z3.Or(*[s == v for v in sorted(opts)]))

    def candidates(self, v, limit=64):
        """Over-approximation of the values a bit-vector term can take, by value-set evaluation of the term
        (read symbols range over their recorded finite domains, if-then-else takes both sides). None if the
        set cannot be bounded. No solver involved; every candidate is checked for feasibility afterwards."""
        memo = {}
        K = z3

        def vs(x):
            if isinstance(x, int):
                return {x}
            i = x.get_id()
            r = memo.get(i)
            if r is not None or i in memo:
                return r
            memo[i] = None
            r = vs1(x)
            if r is not None and len(r) > limit:
                r = None
            memo[i] = r
            return r

        def vs1(x):
            if K.is_bv_value(x):
                return {x.as_long()}
            if not K.is_bv(x):
                return None
            k = x.decl().kind()
            bits = x.size()
            M = (1 << bits) - 1
            if K.is_const(x) and k == K.Z3_OP_UNINTERPRETED:
                d = self.sym_domain.get(x.get_id())
                return set(d[1]) if d is not None else None
            ch = x.children()
            if k == K.Z3_OP_ITE:
                a_, b_ = vs(ch[1]), vs(ch[2])
                return None if a_ is None or b_ is None else a_ | b_
            if k in (K.Z3_OP_BADD, K.Z3_OP_BMUL, K.Z3_OP_BAND, K.Z3_OP_BOR, K.Z3_OP_BXOR, K.Z3_OP_BSUB):
                sets = [vs(c) for c in ch]
                if any(s_ is None for s_ in sets):
                    return None
                acc = sets[0]
                for s_ in sets[1:]:
                    if len(acc) * len(s_) > 4 * limit:
                        return None
                    if k == K.Z3_OP_BADD:
                        acc = {(p + q) & M for p in acc for q in s_}
                    elif k == K.Z3_OP_BSUB:
                        acc = {(p - q) & M for p in acc for q in s_}
                    elif k == K.Z3_OP_BMUL:
                        acc = {(p * q) & M for p in acc for q in s_}
                    elif k == K.Z3_OP_BAND:
                        acc = {p & q for p in acc for q in s_}
                    elif k == K.Z3_OP_BOR:
                        acc = {p | q for p in acc for q in s_}
                    else:
                        acc = {p ^ q for p in acc for q in s_}
                return acc
            if k in (K.Z3_OP_BSHL, K.Z3_OP_BLSHR):
                a_, b_ = vs(ch[0]), vs(ch[1])
                if a_ is None or b_ is None:
                    return None
                if k == K.Z3_OP_BSHL:
                    return {(p << q) & M if q < bits else 0 for p in a_ for q in b_}
                return {p >> q if q < bits else 0 for p in a_ for q in b_}
            if k == K.Z3_OP_EXTRACT:
                hi, lo = x.params()
                a_ = vs(ch[0])
                return None if a_ is None else {(p >> lo) & ((1 << (hi - lo + 1)) - 1) for p in a_}
            if k == K.Z3_OP_ZERO_EXT:
                return vs(ch[0])
            if k == K.Z3_OP_CONCAT:
                acc = {0}
                for c in ch:
                    s_ = vs(c)
                    if s_ is None or len(acc) * len(s_) > 4 * limit:
                        return None
                    acc = {(p << c.size()) | q for p in acc for q in s_}
                return acc
            if k == K.Z3_OP_BNOT:
                a_ = vs(ch[0])
                return None if a_ is None else {(~p) & M for p in a_}
            if k == K.Z3_OP_BNEG:
                a_ = vs(ch[0])
                return None if a_ is None else {(-p) & M for p in a_}
            return None
        return vs(v)

    def write_cell(self, st, addr, size, v, ordering, atomic, ins, kind='W'):
        env = self.env
        o = st.find_obj(addr)
        if o is None and env.concurrent:
            fo = env.foreign(addr)
            if fo is not None:
                self.emit(st, kind, addr, size, None, v, ordering, atomic, ins)
                return
        o = self._lookup(st, addr, size, 'write', ins)
        self.mem_write(st, addr, size, v, ins, o)
        if o.kind in ('global', 'heap') or (self.log_all_atomics and atomic):
            self.emit(st, kind, addr, size, None, v, ordering, atomic, ins)

    def do_rmw(self, st, fr, ins):
        m = fr.fn.module
        a = self.val(st, fr, m, ins.args[0])
        v = self.val(st, fr, m, ins.args[1], ins.ty)
        rt = m.resolve(ins.ty)
        size = m.size_of(rt)
        bits = size * 8
        forks = self.concretize(st, a, ins)
        if len(forks) != 1 or forks[0][0] is not st or not is_conc(a):
            out = []
            for s, x in forks:
                f2 = s.frames[-1]
                self._pin(f2, ins.args[0], x)
                f2.idx -= 1
                out.append(s)
            return out if out else None
        nev = len(st.events)
        old = self.read_cell(st, a, size, ins.extra['ordering'], True, ins, kind='U')
        op = ins.extra['rmw']
        if op == 'xchg':
            new = v
        elif op in ('add', 'sub', 'and', 'or', 'xor'):
            new = self.binop(op, old, v, bits)
        elif op == 'nand':
            new = self.binop('xor', self.binop('and', old, v, bits), mask(bits), bits)
        elif op in ('umax', 'umin', 'max', 'min'):
            pred = {'umax': 'ugt', 'umin': 'ult', 'max': 'sgt', 'min': 'slt'}[op]
            c = self.icmp(pred, old, v, bits)
            if is_conc(c):
                new = old if c else v
            else:
                new = simp(z3.If(as_bool(c), as_bv(old, bits), as_bv(v, bits)))
        else:
            raise Unsupported('atomicrmw ' + op)
        ev = st.events[nev] if len(st.events) > nev else None
        o = st.find_obj(a)
        if o is not None:
            self.mem_write(st, a, size, new, ins, o)
        if ev is not None:
            ev.wval = new
            ev.info = (op, v)
        fr.regs[ins.dest] = old
        return None

    def do_cmpxchg(self, st, fr, ins):
        m = fr.fn.module
        t = ins.extra['opty']
        a = self.val(st, fr, m, ins.args[0])
        e = self.val(st, fr, m, ins.args[1], t)
        n = self.val(st, fr, m, ins.args[2], t)
        size = m.size_of(t)
        bits = size * 8
        forks = self.concretize(st, a, ins)
        if len(forks) != 1 or forks[0][0] is not st or not is_conc(a):
            out = []
            for s, x in forks:
                f2 = s.frames[-1]
                self._pin(f2, ins.args[0], x)
                f2.idx -= 1
                out.append(s)
            return out if out else None
        nev = len(st.events)
        old = self.read_cell(st, a, size, ins.extra['ordering'], True, ins, kind='C')
        ev = st.events[nev] if len(st.events) > nev else None
        eq = self.icmp('eq', old, e, bits)
        if ins.extra['weak'] and self.env.concurrent and st.spurious < self.max_spurious:
            sp = z3.Bool('spur!%d' % next(_sym_ctr))
            succ = simp(z3.And(as_bool(eq), z3.Not(sp)))
            spur_used = True
        else:
            succ = eq
            spur_used = False
        # decide success: fork when both possible (the written value exists only on success)
        if is_conc(succ):
            outcomes = [(st, succ)]
        else:
            sb = as_bool(succ)
            ft = self.feasible(st, sb)
            ff = self.feasible(st, z3.Not(sb))
            outcomes = []
            if ft and ff:
                s2 = st.fork()
                st.pc.append(sb)
                s2.pc.append(z3.Not(sb))
                if spur_used:
                    s2.spurious += 1
                outcomes = [(st, 1), (s2, 0)]
            elif ft:
                st.pc.append(sb)
                outcomes = [(st, 1)]
            elif ff:
                st.pc.append(z3.Not(sb))
                outcomes = [(st, 0)]
            else:
                st.status = 'infeasible'
                return None
        res = []
        for s, ok in outcomes:
            f2 = s.frames[-1]
            if ev is not None:
                # the event object is shared between the two outcomes; its write is conditional
                ev.succ = succ
                ev.wval = n
                ev.info = (ins.extra['fail_ordering'], e)
            if ok:
                o = s.find_obj(a)
                if o is not None:
                    self.mem_write(s, a, size, n, ins, o)
            f2.regs[ins.dest] = (old, ok)
            res.append(s)
        return res if len(res) > 1 else None

    max_spurious = 1
    _cb_cache = {}
    cb_focus = None      # tuple of source-file prefixes: context switches only before gated steps of these files
    stop_on_assert = False
    log_all_atomics = False      # translator validation: log atomics on private (stack/TLS) objects too
    mark_hook = None
    concrete_loop_bound = 200
    # loops whose trip count is fixed by the data structure (slot scans) get their real bound; everything else
    # (retry loops) keeps the small symbolic bound
    loop_bound_overrides = [('src/debt/mod.rs', 40), ('src/debt/fast.rs', 12), ('harness/src/', 12)]
