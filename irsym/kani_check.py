"""C15 via Kani/CBMC: runs the harness crate /verif/kani against /repo's current tree; failures are
replayed with Kani's concrete playback (the generated unit test is run natively) before reporting."""
import os
import re
import shutil
import subprocess
import time

import build
from runner import Violation

KANI_DIR = os.path.join(build.ROOT, 'kani')


def _env():
    env = dict(os.environ)
    env['CARGO_NET_OFFLINE'] = 'true'
    env.pop('RUSTFLAGS', None)
    return env


def run_kani(harness=None, extra=(), cwd_manifest=None, target='kani'):
    cmd = ['cargo', 'kani', '--manifest-path', cwd_manifest or os.path.join(KANI_DIR, 'Cargo.toml'),
           '--target-dir', os.path.join(build.BUILD, target), '--output-format', 'terse']
    if harness:
        cmd += ['--harness', harness]
    cmd += list(extra)
    r = subprocess.run(cmd, env=_env(), stdout=subprocess.PIPE, stderr=subprocess.STDOUT, text=True)
    return r.returncode, r.stdout


def parse(out):
    res = {}
    cur = None
    for line in out.split('\n'):
        m = re.match(r'Checking harness (\S+?)\.\.\.', line)
        if m:
            cur = m.group(1)
            res[cur] = {'status': None, 'failed': [], 'time': None}
            continue
        if cur is None:
            continue
        if line.startswith('Failed Checks:'):
            res[cur]['failed'].append(line[len('Failed Checks:'):].strip())
        m = re.match(r'VERIFICATION:- (\w+)', line)
        if m:
            res[cur]['status'] = m.group(1)
        m = re.match(r'Verification Time: ([0-9.]+)s', line)
        if m:
            res[cur]['time'] = float(m.group(1))
    return res


def playback(harness):
    """Returns (reproduced, log, dir). Works on a scratch copy of the harness crate."""
    short = harness.split('::')[-1]
    scratch = os.path.join(build.BUILD, 'kani-playback-%s' % short)
    shutil.rmtree(scratch, ignore_errors=True)
    shutil.copytree(KANI_DIR, scratch, ignore=shutil.ignore_patterns('target'))
    man = os.path.join(scratch, 'Cargo.toml')
    code, out = run_kani(harness, ['-Z', 'concrete-playback', '--concrete-playback=print'], man, 'kani-pb')
    m = re.search(r'```\n(.*?)```', out, re.S)
    if not m:
        return False, 'no concrete playback test was generated\n' + out[-2000:], scratch
    test = m.group(1)
    lib = os.path.join(scratch, 'src', 'lib.rs')
    src = open(lib).read().rstrip()
    assert src.endswith('}')
    src = src[:-1] + '\n' + test + '\n}\n'      # inside `mod proofs`
    open(lib, 'w').write(src)
    tests = re.findall(r'fn (kani_concrete_playback_\w+)', src)
    cmd = ['cargo', 'kani', 'playback', '-Z', 'concrete-playback', '--manifest-path', man, '--', tests[0]]
    r = subprocess.run(cmd, env=_env(), stdout=subprocess.PIPE, stderr=subprocess.STDOUT, text=True, cwd=scratch)
    failed = ('FAILED' in r.stdout or 'panicked' in r.stdout) and r.returncode != 0
    return failed, r.stdout[-3000:], scratch


def check(ctx):
    t0 = time.time()
    code, out = run_kani()
    res = parse(out)
    if not res:
        raise RuntimeError('cargo kani produced no harness results:\n' + out[-3000:])
    violations = []
    inconclusive = []
    for h, r in sorted(res.items()):
        if r['status'] == 'SUCCESSFUL':
            continue
        if r['status'] != 'FAILED':
            inconclusive.append('%s: no verdict (%s)' % (h, r['status']))
            continue
        unwinding = [f for f in r['failed'] if 'unwinding assertion' in f]
        if unwinding and len(unwinding) == len(r['failed']):
            inconclusive.append('%s: unwinding assertion failed (bound too small)' % h)
            continue
        v = Violation('kani:' + h.split('::')[-1], 'assert', (r['failed'] or ['?'])[0][:80],
                      'Kani: %s fails: %s' % (h, '; '.join(r['failed'])[:300]))
        v.kani_harness = h
        violations.append(v)
    return {'scenario': 'kani RefCnt laws', 'mode': 'Kani/CBMC', 'violations': violations, 'inconclusive': inconclusive,
            'paths': len(res), 'events': 0, 'instrs': len(res), 'queries': len(res), 'solver_s': round(time.time() - t0, 1),
            'obligations': len(res), 'covered': [], 'missing_covers': [], 'statuses': {r['status']: 1 for r in res.values()},
            'sample': {'harnesses': sorted(res), 'verdicts': {h: r['status'] for h, r in res.items()}},
            'harness_results': res}
