"""Parser for the textual LLVM IR subset that rustc emits for the harness + arc_swap crates.

Anything outside the inventory (DESIGN.md Appendix A) raises Unsupported: the caller turns that
into an inconclusive result (exit 2); nothing is ever skipped silently.
"""
import re


class Unsupported(Exception):
    pass


TOKEN_RE = re.compile(r'''
    (?P<ws>\s+)
  | (?P<cstr>c"(?:[^"\\]|\\[0-9A-Fa-f]{2}|\\\\)*")
  | (?P<local>%(?:"[^"]*"|[-A-Za-z0-9_.$]+))
  | (?P<glob>@(?:"[^"]*"|[-A-Za-z0-9_.$]+))
  | (?P<meta>!(?:"[^"]*"|[-A-Za-z0-9_.$]+)?)
  | (?P<attrgrp>\#[0-9]+)
  | (?P<str>"[^"]*")
  | (?P<num>-?[0-9]+(?![A-Za-z_.]))
  | (?P<hex>0x[0-9A-Fa-f]+)
  | (?P<word>[A-Za-z_][A-Za-z0-9_.]*)
  | (?P<dots>\.\.\.)
  | (?P<punct>[(){}\[\]<>,=*:|])
''', re.X)


def tokenize(s):
    out = []
    pos = 0
    n = len(s)
    while pos < n:
        m = TOKEN_RE.match(s, pos)
        if not m:
            raise Unsupported('cannot tokenize: %r' % s[pos:pos + 40])
        pos = m.end()
        k = m.lastgroup
        if k == 'ws':
            continue
        out.append((k, m.group()))
    return out


# ---------------------------------------------------------------- types

class Ty:
    __slots__ = ('kind', 'bits', 'elems', 'count', 'packed', 'name', '_size', '_align', '_offs')

    def __init__(self, kind, bits=0, elems=None, count=0, packed=False, name=None):
        self.kind = kind      # 'int','ptr','void','struct','array','named','label','metadata'
        self.bits = bits
        self.elems = elems
        self.count = count
        self.packed = packed
        self.name = name
        self._size = None
        self._align = None
        self._offs = None

    def __repr__(self):
        if self.kind == 'int':
            return 'i%d' % self.bits
        if self.kind in ('ptr', 'void', 'label', 'metadata'):
            return self.kind
        if self.kind == 'array':
            return '[%d x %r]' % (self.count, self.elems)
        if self.kind == 'struct':
            return ('<{%s}>' if self.packed else '{%s}') % ', '.join(map(repr, self.elems))
        return '%' + str(self.name)


_int_cache = {}


def IntTy(b):
    t = _int_cache.get(b)
    if t is None:
        t = _int_cache[b] = Ty('int', bits=b)
    return t


PTR = Ty('ptr')
VOID = Ty('void')
LABEL = Ty('label')
METADATA = Ty('metadata')

VALUE_WORDS = {'true', 'false', 'null', 'undef', 'poison', 'zeroinitializer', 'inttoptr',
               'getelementptr', 'ptrtoint', 'none', 'bitcast'}


class Module:
    def __init__(self, name):
        self.name = name
        self.named_types = {}
        self.globals = {}      # name -> Global
        self.functions = {}    # name -> Function (defined)
        self.declares = {}     # name -> (retty, [paramtys])
        self.meta = {}         # '!N' -> raw text
        self.aliases = {}      # alias name -> aliasee (functions)
        self.bad_functions = {}  # name -> why it could not be parsed
        self._metaparsed = {}

    # -- layout ------------------------------------------------------------
    def resolve(self, ty):
        while ty.kind == 'named':
            if ty.name not in self.named_types:
                raise Unsupported('opaque/unknown named type %s' % ty.name)
            ty = self.named_types[ty.name]
        return ty

    def align_of(self, ty):
        ty = self.resolve(ty)
        if ty._align is not None:
            return ty._align
        if ty.kind == 'int':
            b = (ty.bits + 7) // 8
            a = 1
            while a < b:
                a *= 2
            a = min(a, 16)
        elif ty.kind == 'ptr':
            a = 8
        elif ty.kind == 'array':
            a = self.align_of(ty.elems)
        elif ty.kind == 'struct':
            a = 1 if ty.packed else max([self.align_of(e) for e in ty.elems] or [1])
        else:
            raise Unsupported('align of %r' % ty)
        ty._align = a
        return a

    def size_of(self, ty):
        ty = self.resolve(ty)
        if ty._size is not None:
            return ty._size
        if ty.kind == 'int':
            b = (ty.bits + 7) // 8
            a = self.align_of(ty)
            s = (b + a - 1) // a * a
        elif ty.kind == 'ptr':
            s = 8
        elif ty.kind == 'array':
            s = ty.count * self.size_of(ty.elems)
        elif ty.kind == 'struct':
            offs = []
            o = 0
            for e in ty.elems:
                if not ty.packed:
                    a = self.align_of(e)
                    o = (o + a - 1) // a * a
                offs.append(o)
                o += self.size_of(e)
            if not ty.packed:
                a = self.align_of(ty)
                o = (o + a - 1) // a * a
            ty._offs = offs
            s = o
        else:
            raise Unsupported('size of %r' % ty)
        ty._size = s
        return s

    def field_offset(self, ty, idx):
        ty = self.resolve(ty)
        self.size_of(ty)
        return ty._offs[idx]

    # -- debug info --------------------------------------------------------
    def _m(self, ref):
        if ref in self._metaparsed:
            return self._metaparsed[ref]
        raw = self.meta.get(ref)
        d = {}
        if raw:
            m = re.match(r'(?:distinct )?!(\w+)\((.*)\)\s*$', raw)
            if m:
                d['_kind'] = m.group(1)
                for km in re.finditer(r'(\w+): (!\d+|"[^"]*"|[^,()]+)', m.group(2)):
                    d[km.group(1)] = km.group(2).strip('"')
        self._metaparsed[ref] = d
        return d

    def srcloc(self, dbgref):
        """'!N' of a DILocation -> 'file:line (fn) <- file:line ...' following inlinedAt."""
        parts = []
        ref = dbgref
        depth = 0
        while ref and depth < 12:
            d = self._m(ref)
            if d.get('_kind') != 'DILocation':
                break
            line = d.get('line', '?')
            sc = d.get('scope')
            fname = '?'
            fn = ''
            hops = 0
            while sc and hops < 30:
                sd = self._m(sc)
                if 'file' in sd and fname == '?':
                    fd = self._m(sd['file'])
                    fname = fd.get('filename', '?')
                    d_ = fd.get('directory', '')
                    if not fname.startswith('/') and d_:
                        fname = d_.rstrip('/') + '/' + fname
                    if '/harness/' in fname:
                        fname = 'harness/' + fname.split('/harness/', 1)[1]
                    elif '/library/' in fname:
                        fname = 'library/' + fname.split('/library/', 1)[1]
                if sd.get('_kind') == 'DISubprogram':
                    fn = sd.get('name', '')
                    break
                sc = sd.get('scope')
                hops += 1
            parts.append('%s:%s(%s)' % (fname.replace('/repo/', ''), line, fn))
            ref = d.get('inlinedAt')
            depth += 1
        return ' <- '.join(parts)


class Global:
    def __init__(self, name, ty, init, const, tls, external, align):
        self.name = name
        self.ty = ty
        self.init = init
        self.const = const
        self.tls = tls
        self.external = external
        self.align = align


class Function:
    def __init__(self, name, retty, params, module):
        self.name = name
        self.retty = retty
        self.params = params          # [(ty, name)]
        self.blocks = {}              # label -> [Instr]
        self.entry = None
        self.module = module
        self.order = []


class Instr:
    __slots__ = ('op', 'dest', 'ty', 'args', 'extra', 'dbg', 'text', 'fn')

    def __init__(self, op, dest=None, ty=None, args=None, extra=None, dbg=None, text=None):
        self.op = op
        self.dest = dest
        self.ty = ty
        self.args = args or []
        self.extra = extra or {}
        self.dbg = dbg
        self.text = text

    def __repr__(self):
        return self.text or self.op


# values: ('local', name) ('global', name) ('int', v) ('null',) ('undef',) ('zero',)
#         ('cstr', bytes) ('agg', [(ty, val)...], packed) ('arr', [(ty,val)...])
#         ('gepc', basety, baseval, [idx vals]) ('inttoptr', val) ('ptrtoint', val)


class P:
    """Token cursor."""

    def __init__(self, toks, mod, text=''):
        self.t = toks
        self.i = 0
        self.mod = mod
        self.text = text

    def peek(self, k=0):
        j = self.i + k
        return self.t[j] if j < len(self.t) else ('eof', '')

    def next(self):
        tok = self.peek()
        self.i += 1
        return tok

    def at(self, val):
        return self.peek()[1] == val

    def accept(self, val):
        if self.peek()[1] == val:
            self.i += 1
            return True
        return False

    def expect(self, val):
        tok = self.next()
        if tok[1] != val:
            raise Unsupported('expected %r got %r in: %s' % (val, tok[1], self.text[:200]))

    def skip_balanced(self):
        # at '(' : skip to matching ')'
        depth = 0
        while True:
            k, v = self.next()
            if v in '([{' and k == 'punct':
                depth += 1
            elif v in ')]}' and k == 'punct':
                depth -= 1
                if depth == 0:
                    return
            elif k == 'eof':
                raise Unsupported('unbalanced')

    # ---- types
    def type(self):
        k, v = self.next()
        if k == 'word':
            if v == 'ptr':
                t = PTR
            elif v == 'void':
                t = VOID
            elif v == 'label':
                t = LABEL
            elif v == 'metadata':
                t = METADATA
            elif re.fullmatch(r'i[0-9]+', v):
                t = IntTy(int(v[1:]))
            elif v in ('float', 'double', 'half', 'x86_fp80', 'fp128'):
                raise Unsupported('floating point type %s' % v)
            else:
                raise Unsupported('unknown type word %r in: %s' % (v, self.text[:200]))
        elif k == 'local':
            t = Ty('named', name=v[1:].strip('"'))
        elif v == '{':
            elems = []
            if not self.accept('}'):
                while True:
                    elems.append(self.type())
                    if self.accept('}'):
                        break
                    self.expect(',')
            t = Ty('struct', elems=elems)
        elif v == '<':
            if self.at('{'):
                self.next()
                elems = []
                if not self.accept('}'):
                    while True:
                        elems.append(self.type())
                        if self.accept('}'):
                            break
                        self.expect(',')
                self.expect('>')
                t = Ty('struct', elems=elems, packed=True)
            else:
                raise Unsupported('vector type in: %s' % self.text[:200])
        elif v == '[':
            n = int(self.next()[1])
            k2, x = self.next()
            if x != 'x':
                raise Unsupported('array type syntax')
            e = self.type()
            self.expect(']')
            t = Ty('array', elems=e, count=n)
        else:
            raise Unsupported('type syntax %r in: %s' % (v, self.text[:200]))
        # function type suffix e.g. "void (ptr, ...)" -- only in call with varargs; unsupported
        return t

    def is_type_start(self):
        k, v = self.peek()
        if k == 'word':
            return v in ('ptr', 'void', 'label', 'metadata') or re.fullmatch(r'i[0-9]+', v) is not None
        if k == 'local':
            return True
        return v in ('{', '[', '<')

    # ---- values
    def value(self, ty):
        k, v = self.next()
        if k == 'local':
            return ('local', v[1:].strip('"'))
        if k == 'glob':
            return ('global', v[1:].strip('"'))
        if k == 'num':
            return ('int', int(v))
        if k == 'cstr':
            return ('cstr', parse_cstr(v))
        if k == 'word':
            if v == 'true':
                return ('int', 1)
            if v == 'false':
                return ('int', 0)
            if v == 'null':
                return ('null',)
            if v in ('undef', 'poison'):
                return ('undef',)
            if v == 'zeroinitializer':
                return ('zero',)
            if v == 'inttoptr':
                self.expect('(')
                t = self.type()
                x = self.value(t)
                self.expect('to')
                self.type()
                self.expect(')')
                return ('inttoptr', x)
            if v == 'ptrtoint':
                self.expect('(')
                t = self.type()
                x = self.value(t)
                self.expect('to')
                self.type()
                self.expect(')')
                return ('ptrtoint', x)
            if v == 'getelementptr':
                while self.peek()[1] in ('inbounds', 'nuw', 'nusw'):
                    self.next()
                self.expect('(')
                bt = self.type()
                self.expect(',')
                pt = self.type()
                base = self.value(pt)
                idx = []
                while self.accept(','):
                    it = self.type()
                    idx.append(self.value(it))
                self.expect(')')
                return ('gepc', bt, base, idx)
        if v == '{' or (v == '<' and self.at('{')):
            packed = False
            if v == '<':
                self.next()
                packed = True
            elems = []
            if not self.at('}'):
                while True:
                    t = self.type()
                    elems.append((t, self.value(t)))
                    if not self.accept(','):
                        break
            self.expect('}')
            if packed:
                self.expect('>')
            return ('agg', elems, packed)
        if v == '[':
            elems = []
            if not self.at(']'):
                while True:
                    t = self.type()
                    elems.append((t, self.value(t)))
                    if not self.accept(','):
                        break
            self.expect(']')
            return ('arr', elems)
        raise Unsupported('value syntax %r (%s) in: %s' % (v, k, self.text[:300]))

    def skip_attrs(self):
        """Skip parameter/return attributes between a type and its value."""
        while True:
            k, v = self.peek()
            if k == 'word' and v not in VALUE_WORDS:
                self.next()
                if self.at('('):
                    self.skip_balanced()
                elif v in ('align',) and self.peek()[0] == 'num':
                    self.next()
                continue
            if k == 'attrgrp':
                self.next()
                continue
            return

    def typed_value(self):
        t = self.type()
        self.skip_attrs()
        if t.kind == 'metadata':
            self.next()
            return t, ('meta',)
        return t, self.value(t)


def parse_cstr(tok):
    s = tok[2:-1]
    out = bytearray()
    i = 0
    while i < len(s):
        c = s[i]
        if c == '\\':
            if s[i + 1] == '\\':
                out.append(92)
                i += 2
            else:
                out.append(int(s[i + 1:i + 3], 16))
                i += 3
        else:
            out.append(ord(c))
            i += 1
    return bytes(out)


ORDERINGS = {'unordered', 'monotonic', 'acquire', 'release', 'acq_rel', 'seq_cst'}
BINOPS = {'add', 'sub', 'mul', 'and', 'or', 'xor', 'shl', 'lshr', 'ashr', 'udiv', 'urem', 'sdiv', 'srem'}
CASTS = {'trunc', 'zext', 'sext', 'ptrtoint', 'inttoptr', 'bitcast'}
FLAG_WORDS = {'nuw', 'nsw', 'exact', 'disjoint', 'nneg', 'inbounds', 'nusw', 'volatile', 'samesign'}


def split_meta(p):
    """Parse trailing ', !dbg !N, !foo !M' on an instruction; return dbg ref and dict."""
    md = {}
    while p.accept(','):
        k, v = p.next()
        if k == 'meta':
            k2, v2 = p.next()
            md[v] = v2
        elif v == 'align':
            p.next()
        else:
            raise Unsupported('trailing %r in: %s' % (v, p.text[:300]))
    return md


def parse_instr(line, mod):
    toks = tokenize(line)
    p = P(toks, mod, line)
    dest = None
    if p.peek()[0] == 'local' and p.peek(1)[1] == '=':
        dest = p.next()[1][1:].strip('"')
        p.next()
    k, op = p.next()
    ins = Instr(op, dest=dest, text=line.strip())
    ex = ins.extra

    if op in ('tail', 'musttail', 'notail'):
        k, op = p.next()
        ins.op = op
    if op in BINOPS:
        while p.peek()[1] in FLAG_WORDS:
            p.next()
        t = p.type()
        a = p.value(t)
        p.expect(',')
        b = p.value(t)
        ins.ty = t
        ins.args = [a, b]
    elif op == 'icmp':
        while p.peek()[1] in FLAG_WORDS:
            p.next()
        ex['pred'] = p.next()[1]
        t = p.type()
        a = p.value(t)
        p.expect(',')
        b = p.value(t)
        ex['opty'] = t
        ins.ty = IntTy(1)
        ins.args = [a, b]
    elif op in CASTS:
        while p.peek()[1] in FLAG_WORDS:
            p.next()
        t = p.type()
        a = p.value(t)
        p.expect('to')
        t2 = p.type()
        ex['from'] = t
        ins.ty = t2
        ins.args = [a]
    elif op == 'select':
        ct, c = p.typed_value()
        p.expect(',')
        t, a = p.typed_value()
        p.expect(',')
        t2, b = p.typed_value()
        ins.ty = t
        ins.args = [c, a, b]
    elif op == 'phi':
        t = p.type()
        inc = []
        while True:
            p.expect('[')
            v = p.value(t)
            p.expect(',')
            lab = p.next()[1][1:].strip('"')
            p.expect(']')
            inc.append((v, lab))
            if p.peek()[1] == ',' and p.peek(1)[1] == '[':
                p.next()
                continue
            break
        ins.ty = t
        ins.args = inc
    elif op == 'alloca':
        t = p.type()
        ex['alloc_ty'] = t
        ex['align'] = 1
        if p.accept(','):
            if p.accept('align'):
                ex['align'] = int(p.next()[1])
            else:
                raise Unsupported('alloca with count: %s' % line)
        ins.ty = PTR
    elif op == 'load':
        ex['atomic'] = p.accept('atomic')
        p.accept('volatile')
        t = p.type()
        p.expect(',')
        pt, a = p.typed_value()
        ins.ty = t
        ins.args = [a]
        ex['ordering'] = None
        if ex['atomic']:
            if p.peek()[1] == 'syncscope':
                raise Unsupported('syncscope')
            ex['ordering'] = p.next()[1]
            if ex['ordering'] not in ORDERINGS:
                raise Unsupported('ordering %r' % ex['ordering'])
    elif op == 'store':
        ex['atomic'] = p.accept('atomic')
        p.accept('volatile')
        t, v = p.typed_value()
        p.expect(',')
        pt, a = p.typed_value()
        ins.ty = t
        ins.args = [v, a]
        ex['ordering'] = None
        if ex['atomic']:
            ex['ordering'] = p.next()[1]
            if ex['ordering'] not in ORDERINGS:
                raise Unsupported('ordering %r' % ex['ordering'])
    elif op == 'atomicrmw':
        p.accept('volatile')
        ex['rmw'] = p.next()[1]
        if ex['rmw'] not in ('xchg', 'add', 'sub', 'and', 'or', 'xor', 'nand', 'max', 'min', 'umax', 'umin'):
            raise Unsupported('atomicrmw %s' % ex['rmw'])
        pt, a = p.typed_value()
        p.expect(',')
        t, v = p.typed_value()
        ex['ordering'] = p.next()[1]
        if ex['ordering'] not in ORDERINGS:
            raise Unsupported('ordering %r' % ex['ordering'])
        ins.ty = t
        ins.args = [a, v]
    elif op == 'cmpxchg':
        ex['weak'] = p.accept('weak')
        p.accept('volatile')
        pt, a = p.typed_value()
        p.expect(',')
        t, e = p.typed_value()
        p.expect(',')
        t2, n = p.typed_value()
        ex['ordering'] = p.next()[1]
        ex['fail_ordering'] = p.next()[1]
        if ex['ordering'] not in ORDERINGS or ex['fail_ordering'] not in ORDERINGS:
            raise Unsupported('cmpxchg orderings: %s' % line)
        ex['opty'] = t
        ins.ty = Ty('struct', elems=[t, IntTy(1)])
        ins.args = [a, e, n]
    elif op == 'fence':
        if p.peek()[1] == 'syncscope':
            raise Unsupported('syncscope fence')
        ex['ordering'] = p.next()[1]
        if ex['ordering'] not in ORDERINGS:
            raise Unsupported('fence ordering')
    elif op == 'getelementptr':
        while p.peek()[1] in FLAG_WORDS:
            p.next()
        bt = p.type()
        p.expect(',')
        pt, base = p.typed_value()
        idx = []
        while p.peek()[1] == ',' and p.peek(1)[0] != 'meta':
            p.next()
            it, iv = p.typed_value()
            idx.append((it, iv))
        ex['base_ty'] = bt
        ins.ty = PTR
        ins.args = [base] + idx
    elif op == 'extractvalue':
        t, a = p.typed_value()
        idx = []
        while p.peek()[1] == ',' and p.peek(1)[0] == 'num':
            p.next()
            idx.append(int(p.next()[1]))
        ex['agg_ty'] = t
        ex['idx'] = idx
        ins.args = [a]
    elif op == 'insertvalue':
        t, a = p.typed_value()
        p.expect(',')
        t2, v = p.typed_value()
        idx = []
        while p.peek()[1] == ',' and p.peek(1)[0] == 'num':
            p.next()
            idx.append(int(p.next()[1]))
        ex['agg_ty'] = t
        ex['idx'] = idx
        ins.ty = t
        ins.args = [a, v]
    elif op in ('call', 'invoke'):
        # [cconv] [ret attrs] type callee(args) [attrs]
        while True:
            k, v = p.peek()
            if p.is_type_start():
                break
            p.next()
            if p.at('('):
                p.skip_balanced()
            elif v == 'align' and p.peek()[0] == 'num':
                p.next()
        rt = p.type()
        if p.at('('):
            # function type given explicitly (varargs); skip
            p.skip_balanced()
        k, v = p.next()
        if k == 'glob':
            callee = ('global', v[1:].strip('"'))
        elif k == 'local':
            callee = ('local', v[1:].strip('"'))
        elif k == 'word' and v == 'asm':
            raise Unsupported('inline asm: %s' % line[:200])
        else:
            raise Unsupported('callee syntax %r in %s' % (v, line[:200]))
        p.expect('(')
        args = []
        if not p.accept(')'):
            while True:
                t, a = p.typed_value()
                args.append((t, a))
                if p.accept(')'):
                    break
                p.expect(',')
        # fn attrs
        while p.peek()[0] in ('attrgrp', 'word') and p.peek()[1] not in ('to', 'unwind'):
            k, v = p.next()
            if p.at('('):
                p.skip_balanced()
        if p.at('['):
            raise Unsupported('operand bundle')
        ins.ty = rt
        ex['callee'] = callee
        ins.args = args
        if op == 'invoke':
            p.expect('to')
            p.expect('label')
            ex['normal'] = p.next()[1][1:].strip('"')
            p.expect('unwind')
            p.expect('label')
            ex['unwind'] = p.next()[1][1:].strip('"')
    elif op == 'br':
        if p.accept('label'):
            ex['targets'] = [p.next()[1][1:].strip('"')]
            ins.args = []
        else:
            t, c = p.typed_value()
            p.expect(',')
            p.expect('label')
            a = p.next()[1][1:].strip('"')
            p.expect(',')
            p.expect('label')
            b = p.next()[1][1:].strip('"')
            ex['targets'] = [a, b]
            ins.args = [c]
    elif op == 'switch':
        t, v = p.typed_value()
        p.expect(',')
        p.expect('label')
        ex['default'] = p.next()[1][1:].strip('"')
        p.expect('[')
        cases = []
        while not p.accept(']'):
            ct = p.type()
            cv = p.value(ct)
            p.expect(',')
            p.expect('label')
            cases.append((cv[1], p.next()[1][1:].strip('"')))
        ex['cases'] = cases
        ex['opty'] = t
        ins.args = [v]
    elif op == 'ret':
        if p.accept('void'):
            ins.args = []
        else:
            t, v = p.typed_value()
            ins.ty = t
            ins.args = [v]
    elif op == 'unreachable':
        pass
    elif op == 'resume':
        t, v = p.typed_value()
        ins.args = [v]
    elif op == 'landingpad':
        t = p.type()
        ins.ty = t
        # cleanup / catch / filter clauses: skip
        while p.peek()[0] != 'eof' and not (p.peek()[1] == ',' and p.peek(1)[0] == 'meta'):
            p.next()
    elif op == 'freeze':
        t, v = p.typed_value()
        ins.ty = t
        ins.args = [v]
    else:
        raise Unsupported('opcode %r: %s' % (op, line.strip()[:200]))
    md = split_meta(p)
    if p.peek()[0] != 'eof':
        raise Unsupported('trailing tokens %r in: %s' % (p.peek(), line.strip()[:300]))
    ins.dbg = md.get('!dbg')
    if md:
        ex['md'] = md
    return ins


DEFINE_SKIP = {'internal', 'private', 'hidden', 'protected', 'dso_local', 'fastcc', 'ccc', 'coldcc',
               'unnamed_addr', 'local_unnamed_addr', 'weak', 'linkonce_odr', 'weak_odr', 'external',
               'available_externally', 'linkonce', 'default'}


def parse_module(path, name=None):
    mod = Module(name or path)
    with open(path) as f:
        lines = f.read().split('\n')
    i = 0
    n = len(lines)
    cur = None
    curblock = None
    while i < n:
        line = lines[i]
        i += 1
        s = line.strip()
        if not s or s.startswith(';'):
            continue
        if cur is not None:
            if s == '}':
                cur = None
                curblock = None
                continue
            if cur is False and not line.startswith((' ', '\t')) and ':' not in s.split(';')[0][:200] and False:
                pass
            if s.startswith('#dbg_'):
                continue
            if cur is False:
                continue
            m = re.match(r'^("[^"]+"|[-A-Za-z0-9_.$]+):(\s*;.*)?$', s)
            if m and not line.startswith('  '):
                lab = m.group(1).strip('"')
                curblock = []
                cur.blocks[lab] = curblock
                cur.order.append(lab)
                if cur.entry is None:
                    cur.entry = lab
                continue
            # multi-line instructions
            if s.startswith('switch ') and s.endswith('['):
                while not lines[i].strip().startswith(']'):
                    s += ' ' + lines[i].strip()
                    i += 1
                s += ' ' + lines[i].strip()
                i += 1
            elif re.match(r'^(%\S+ = )?invoke ', s):
                s += ' ' + lines[i].strip()
                i += 1
            elif re.match(r'^%\S+ = landingpad ', s):
                while i < n and re.match(r'^\s+(cleanup|catch|filter)\b', lines[i]):
                    s += ' ' + lines[i].strip()
                    i += 1
            # strip trailing comments (only '; preds' style outside strings)
            if cur is False:
                continue      # inside a function that could not be parsed: skip to its end
            try:
                ins = parse_instr(s, mod)
            except Unsupported as e:
                # the function uses something outside the supported subset (floats, vectors...): it is
                # recorded as unusable; calling it makes the run inconclusive, it is never skipped silently
                mod.bad_functions[cur.name] = str(e)
                mod.functions.pop(cur.name, None)
                cur = False
                continue
            ins.fn = cur
            if curblock is None:
                raise Unsupported('instruction outside block')
            curblock.append(ins)
            continue
        if s.startswith('define '):
            try:
                cur = parse_define(s, mod)
            except Unsupported as e:
                nm = re.search(r'@("[^"]*"|[-A-Za-z0-9_.$]+)\(', s)
                if nm:
                    mod.bad_functions[nm.group(1).strip('"')] = str(e)
                cur = False
                curblock = None
                continue
            mod.functions[cur.name] = cur
            curblock = None
            continue
        if s.startswith('declare '):
            try:
                parse_declare(s, mod)
            except Unsupported as e:
                nm = re.search(r'@("[^"]*"|[-A-Za-z0-9_.$]+)\(', s)
                if nm:
                    mod.bad_functions[nm.group(1).strip('"')] = str(e)
            continue
        if s.startswith('%') and ' = type ' in s:
            m = re.match(r'^(%(?:"[^"]*"|[-A-Za-z0-9_.$]+)) = type (.*)$', s)
            nm = m.group(1)[1:].strip('"')
            body = m.group(2)
            if body.strip() == 'opaque':
                continue
            p = P(tokenize(body), mod, s)
            mod.named_types[nm] = p.type()
            continue
        if s.startswith('@') and re.search(r'\b(float|double)\b', s) and ' alias ' not in s:
            continue     # floating point constants: never referenced by the supported subset (a use is an error)
        if s.startswith('@'):
            am = re.match(r'^(@(?:"[^"]*"|[-A-Za-z0-9_.$]+)) = .*\balias\b.*, ptr (@(?:"[^"]*"|[-A-Za-z0-9_.$]+))\s*$', s)
            if am:
                mod.aliases[am.group(1)[1:].strip('"')] = am.group(2)[1:].strip('"')
                continue
            parse_global(s, mod)
            continue
        if s.startswith('!'):
            m = re.match(r'^(![-A-Za-z0-9_.$]+) = (.*)$', s)
            if m:
                mod.meta[m.group(1)] = m.group(2)
            continue
        if s.startswith(('target ', 'source_filename', 'attributes ', '$', 'module asm')):
            if s.startswith('module asm'):
                raise Unsupported('module asm')
            continue
        raise Unsupported('top-level syntax: %s' % s[:200])
    return mod


def parse_define(s, mod):
    body = s
    if body.rstrip().endswith('{'):
        body = body.rstrip()[:-1]
    # cut trailing "!dbg !N"
    toks = tokenize(body)
    p = P(toks, mod, s)
    p.expect('define')
    while True:
        k, v = p.peek()
        if k == 'word' and not p.is_type_start():
            p.next()
            if p.at('('):
                p.skip_balanced()
            elif v == 'align' and p.peek()[0] == 'num':
                p.next()
            continue
        break
    rt = p.type()
    k, v = p.next()
    if k != 'glob':
        raise Unsupported('define syntax: %s' % s[:200])
    name = v[1:].strip('"')
    p.expect('(')
    params = []
    if not p.accept(')'):
        while True:
            if p.peek()[0] == 'dots':
                raise Unsupported('varargs define')
            t = p.type()
            p.skip_attrs()
            k, v = p.next()
            if k != 'local':
                raise Unsupported('param name: %s' % s[:200])
            params.append((t, v[1:].strip('"')))
            if p.accept(')'):
                break
            p.expect(',')
    return Function(name, rt, params, mod)


def parse_declare(s, mod):
    toks = tokenize(s)
    p = P(toks, mod, s)
    p.expect('declare')
    while True:
        k, v = p.peek()
        if k == 'word' and not p.is_type_start():
            p.next()
            if p.at('('):
                p.skip_balanced()
            elif v == 'align' and p.peek()[0] == 'num':
                p.next()
            continue
        break
    rt = p.type()
    k, v = p.next()
    name = v[1:].strip('"')
    mod.declares[name] = rt


def parse_global(s, mod):
    toks = tokenize(s)
    p = P(toks, mod, s)
    k, v = p.next()
    name = v[1:].strip('"')
    p.expect('=')
    const = False
    tls = False
    external = False
    while True:
        k, v = p.peek()
        if v in ('global', 'constant'):
            const = (v == 'constant')
            p.next()
            break
        if v == 'thread_local':
            tls = True
            p.next()
            if p.at('('):
                p.skip_balanced()
            continue
        if v == 'external' or v == 'extern_weak':
            external = True
        if v == 'alias' or v == 'ifunc':
            raise Unsupported('alias: %s' % s[:100])
        p.next()
        if k == 'eof':
            raise Unsupported('global syntax: %s' % s[:200])
    t = p.type()
    init = None
    if not external:
        init = p.value(t)
    align = 1
    while p.accept(','):
        k, v = p.next()
        if v == 'align':
            align = int(p.next()[1])
        elif k == 'meta':
            p.next()
        elif v in ('section', 'comdat', 'no_sanitize_address', 'partition', 'code_model'):
            if p.peek()[0] in ('str', 'local'):
                p.next()
        else:
            raise Unsupported('global trailing %r: %s' % (v, s[:200]))
    mod.globals[name] = Global(name, t, init, const, tls, external, align)


if __name__ == '__main__':
    import sys
    for path in sys.argv[1:]:
        m = parse_module(path)
        ni = sum(len(b) for f in m.functions.values() for b in f.blocks.values())
        print(path, 'functions', len(m.functions), 'globals', len(m.globals), 'instrs', ni)
