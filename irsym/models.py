"""Environment models: every external callee the IR may reach. Each is part of every claim and is
listed in the evidence files (MODELS). Unknown callee => Unsupported (inconclusive), never skipped."""
import z3

from llparse import Unsupported
from exec import (EngineError, is_conc, simp, as_bv, as_bool, fresh, mask, Obj)

MODELS = [
    '__rust_alloc/__rust_alloc_zeroed/__rust_realloc: fresh block, never fails; __rust_dealloc: block dies, double free / bad free is a violation',
    'core::panicking::*, option::expect_failed/unwrap_failed, result::unwrap_failed, assert_failed, panic_bounds_check: PANIC (unwinds in the unwind flavour, ends the path otherwise)',
    'panic_cannot_unwind / panic_in_cleanup / process::abort / llvm.trap / handle_alloc_error: ABORT',
    'llvm.assume: checked as an obligation (UB if violated), llvm.expect/lifetime/noalias.scope.decl: no-op',
    'llvm.memcpy/memmove/memset: cell-wise copy (constant length)',
    'llvm.threadlocal.address: base of the current simulated thread\'s instance',
    'std::sys::thread_local::destructors::register: records the destructor for verif_thread_exit',
    'futex/park/yield/sleep: BLOCKING event',
    'alloc::sync::arcinner_layout_for_value_layout: computed (16-byte header + value, padded)',
    'std::panicking::panic_count::GLOBAL_PANIC_COUNT (external static): reads as 0 (no panic in progress)',
    'verif_nondet_u64/assume/assert/cover/mark/set_thread/thread_exit/user_panic: harness interface',
]

PANIC_PATTERNS = ['9panicking9panic_fmt', '9panicking5panic', '6option13expect_failed', '6option13unwrap_failed',
                  '6result13unwrap_failed', '9panicking13assert_failed', '9panicking18panic_bounds_check',
                  '9panicking19assert_failed_inner', 'panic_const', '5slice5index', '3str16slice_error_fail',
                  '9panicking11panic_const', '4cell22panic_already', '9panicking14panic_explicit',
                  '9panicking15panic_nounwind', 'begin_panic', '6thread5local18panic_access_error',
                  'capacity_overflow', 'raw_vec12handle_error']
ABORT_PATTERNS = ['panic_cannot_unwind', 'panic_in_cleanup', '7process5abort', 'handle_alloc_error',
                  '9panicking19panic_cannot_unwind', 'abort_internal', 'panic_nounwind']
BLOCK_PATTERNS = ['futex', '6thread9yield_now', '6thread5sleep', '4park', 'sched_yield', 'pthread_',
                  'lock_contended', 'read_contended', 'write_contended', 'wake_writer_or_readers', 'wake_']


def call_external(eng, st, fr, ins, name, args):
    dest = ins.dest
    regs = fr.regs
    if name.startswith('llvm.'):
        return llvm_intrinsic(eng, st, fr, ins, name, args)
    if name.startswith('verif_'):
        return verif_call(eng, st, fr, ins, name, args)
    if '__rust_no_alloc_shim_is_unstable' in name:
        return None
    if name.endswith('12___rust_alloc') or name.endswith('19___rust_alloc_zeroed') or name in ('__rust_alloc', '__rust_alloc_zeroed'):
        size, align = args[0], args[1]
        if not is_conc(size) or not is_conc(align):
            raise Unsupported('symbolic allocation size')
        o = alloc_block(eng, st, size, align, ins)
        if 'zeroed' in name:
            eng._zero(st.cells(o.id, True), 0, size)
        regs[dest] = o.base
        return None
    if name.endswith('14___rust_dealloc') or name == '__rust_dealloc':
        p = args[0]
        if not is_conc(p):
            raise Unsupported('symbolic dealloc pointer')
        free_block(eng, st, p, ins)
        return None
    if name.endswith('14___rust_realloc') or name == '__rust_realloc':
        p, osz, al, nsz = args
        if not all(is_conc(x) for x in args):
            raise Unsupported('symbolic realloc')
        o = alloc_block(eng, st, nsz, al, ins)
        n = min(osz, nsz)
        memcpy(eng, st, o.base, p, n, ins)
        free_block(eng, st, p, ins)
        regs[dest] = o.base
        return None
    for pat in ABORT_PATTERNS:
        if pat in name:
            eng.oblige(st, 'abort', None, name[-40:], ins, 'abort via %s at %s' % (name, eng.loc(ins)))
            st.status = 'aborted'
            return None
    for pat in PANIC_PATTERNS:
        if pat in name:
            eng.oblige(st, 'panic', None, eng.loc(ins).split(' <- ')[0], ins,
                       'panic via %s at %s' % (name[-48:], eng.loc(ins)))
            if eng.unwind:
                st.unwinding = 0xdead0000
                return eng.start_unwind_here(st, fr, ins) or 'unwound'
            st.status = 'panicked'
            return None
    if name.endswith('32arcinner_layout_for_value_layout'):
        # alloc::sync::arcinner_layout_for_value_layout(Layout{align,size}) -> Layout of ArcInner<T>:
        # two usize counters, then the value at its alignment, padded to the overall alignment
        al, sz = args[0], args[1]
        if not (is_conc(al) and is_conc(sz)):
            raise Unsupported('symbolic layout')
        a = max(al, 8)
        off = (16 + al - 1) // al * al
        regs[dest] = (a, (off + sz + a - 1) // a * a)
        return None
    if 'destructors' in name and name.endswith('8register'):
        p, f = args
        st.tls_dtors.setdefault(st.thread, []).append((p, f))
        return None
    for pat in BLOCK_PATTERNS:
        if pat in name:
            eng.oblige(st, 'blocking', None, name[-40:], ins, 'blocking call %s at %s' % (name, eng.loc(ins)))
            st.status = 'blocked'
            return None
    if name == 'rust_eh_personality':
        raise Unsupported('personality called')
    h = eng.hooks.get(name)
    if h is not None:
        return h(eng, st, fr, ins, args)
    raise Unsupported('no model for external function %s (called at %s)' % (name, eng.loc(ins)))


def alloc_block(eng, st, size, align, ins):
    if eng.reuse and st.freed_blocks:
        # address reuse: a freed block of the same layout may be handed out again
        for i, (base, sz, al, oid) in enumerate(st.freed_blocks):
            if sz == size and al == align:
                choice = z3.Bool('reuse!%d' % id(ins) + str(len(st.pc)))
                raise Unsupported('reuse model not available in this mode')
    frames = eng.loc(ins).split(' <- ')
    site = next((f for f in frames if not f.startswith('library/')), frames[0])
    return eng.alloc_heap(st, size, align, 'heap@%s' % site)


def free_block(eng, st, p, ins):
    o = st.find_obj(p)
    if o is None and eng.env.concurrent and eng.env.foreign(p) is not None:
        base, size, nm = eng.env.foreign(p)
        if base != p:
            raise EngineError('bad-free', 'dealloc of interior pointer %#x' % p)
        eng.emit(st, 'FREE', p, size, None, None, None, False, ins)
        return
    if o is None or o.base != p or o.kind != 'heap':
        raise EngineError('bad-free', 'dealloc of %#x which is not a heap block (%s)' % (p, eng.loc(ins)))
    if not st.live[o.id]:
        raise EngineError('double-free', 'dealloc of already freed %r (%s)' % (o, eng.loc(ins)))
    st.live[o.id] = False
    eng.emit(st, 'FREE', p, o.size, None, None, None, False, ins)


def memcpy(eng, st, dst, src, n, ins):
    """Copy n bytes; preserves cell structure when possible."""
    if n == 0:
        return
    so = eng._lookup(st, src, n, 'memcpy-read', ins)
    do = eng._lookup(st, dst, n, 'memcpy-write', ins)
    # gather values first (memmove semantics)
    items = []
    off = src - so.base
    cells = st.mem[so.id]
    b = off
    end = off + n
    while b < end:
        c = cells.get(b)
        if c is not None and b + c[0] <= end:
            items.append((b - off, c[0], c[1]))
            b += c[0]
        else:
            # partial / uninitialised: byte read (skipping truly uninitialised bytes)
            found = False
            for back in range(0, 64):
                c2 = cells.get(b - back)
                if c2 is not None:
                    if back < c2[0]:
                        found = True
                    break
            if found:
                items.append((b - off, 1, eng._read_byte(cells, b)))
            else:
                items.append((b - off, 1, None))
            b += 1
    shared = do.kind in ('global', 'heap')
    for rel, sz, v in items:
        if v is None:
            # uninitialised source byte: destination byte becomes uninitialised
            dc = st.cells(do.id, True)
            a = dst + rel
            # clear any overlapping cell by writing a fresh unconstrained byte
            eng.mem_write(st, a, 1, fresh('uninit', 8), ins, do)
            del dc[a - do.base]
            continue
        if shared:
            eng.write_cell(st, dst + rel, sz, v, None, False, ins)
        else:
            eng.mem_write(st, dst + rel, sz, v, ins, do)


def llvm_intrinsic(eng, st, fr, ins, name, args):
    regs = fr.regs
    dest = ins.dest
    if name.startswith(('llvm.lifetime.', 'llvm.experimental.noalias.scope.decl', 'llvm.dbg.', 'llvm.donothing',
                        'llvm.prefetch', 'llvm.invariant.')):
        return None
    if name.startswith('llvm.assume'):
        c = args[0]
        if is_conc(c):
            if not c:
                raise EngineError('ub', 'llvm.assume(false) reachable at %s' % eng.loc(ins))
            return None
        cb = as_bool(c)
        if eng.feasible(st, z3.Not(cb)):
            eng.oblige(st, 'ub', cb, 'assume', ins, 'llvm.assume may be violated at %s' % eng.loc(ins))
        st.pc.append(cb)
        return None
    if name.startswith('llvm.expect'):
        regs[dest] = args[0]
        return None
    if name.startswith('llvm.trap') or name.startswith('llvm.ubsantrap') or name.startswith('llvm.debugtrap'):
        eng.oblige(st, 'abort', None, 'llvm.trap', ins, 'trap at %s' % eng.loc(ins))
        st.status = 'aborted'
        return None
    if name.startswith('llvm.threadlocal.address'):
        regs[dest] = args[0]
        return None
    if name.startswith('llvm.memcpy') or name.startswith('llvm.memmove'):
        d, s, n = args[0], args[1], args[2]
        if not (is_conc(d) and is_conc(s) and is_conc(n)):
            raise Unsupported('symbolic memcpy operands')
        memcpy(eng, st, d, s, n, ins)
        return None
    if name.startswith('llvm.memset'):
        d, v, n = args[0], args[1], args[2]
        if not (is_conc(d) and is_conc(n)):
            raise Unsupported('symbolic memset operands')
        if n == 0:
            return None
        do = eng._lookup(st, d, n, 'memset', ins)
        shared = do.kind in ('global', 'heap')
        b = d
        end = d + n
        while b < end:
            if b % 8 == 0 and end - b >= 8 and is_conc(v):
                val = int.from_bytes(bytes([v & 0xff]) * 8, 'little')
                sz = 8
            else:
                val = v if is_conc(v) else v
                sz = 1
            if shared:
                eng.write_cell(st, b, sz, val, None, False, ins)
            else:
                eng.mem_write(st, b, sz, val, ins, do)
            b += sz
        return None
    base = name.split('.')[1]
    bits = None
    for part in name.split('.')[2:]:
        if part.startswith('i') and part[1:].isdigit():
            bits = int(part[1:])
    if base in ('umin', 'umax', 'smin', 'smax'):
        a, b = args
        pred = {'umin': 'ult', 'umax': 'ugt', 'smin': 'slt', 'smax': 'sgt'}[base]
        c = eng.icmp(pred, a, b, bits)
        if is_conc(c):
            regs[dest] = a if c else b
        else:
            regs[dest] = simp(z3.If(as_bool(c), as_bv(a, bits), as_bv(b, bits)))
        return None
    if base in ('uadd', 'usub', 'umul', 'sadd', 'ssub', 'smul') and 'with.overflow' in name:
        a, b = args
        if is_conc(a) and is_conc(b):
            if base == 'uadd':
                r = a + b
                regs[dest] = (r & mask(bits), int(r > mask(bits)))
            elif base == 'usub':
                regs[dest] = ((a - b) & mask(bits), int(a < b))
            elif base == 'umul':
                r = a * b
                regs[dest] = (r & mask(bits), int(r > mask(bits)))
            else:
                from exec import to_signed
                sa, sb = to_signed(a, bits), to_signed(b, bits)
                r = {'sadd': sa + sb, 'ssub': sa - sb, 'smul': sa * sb}[base]
                regs[dest] = (r & mask(bits), int(not (-(1 << (bits - 1)) <= r < (1 << (bits - 1)))))
            return None
        x, y = as_bv(a, bits), as_bv(b, bits)
        if base == 'uadd':
            r = x + y
            regs[dest] = (simp(r), simp(z3.ULT(r, x)))
        elif base == 'usub':
            regs[dest] = (simp(x - y), simp(z3.ULT(x, y)))
        elif base == 'umul':
            w = z3.ZeroExt(bits, x) * z3.ZeroExt(bits, y)
            regs[dest] = (simp(z3.Extract(bits - 1, 0, w)), simp(z3.Extract(2 * bits - 1, bits, w) != 0))
        else:
            raise Unsupported('symbolic signed overflow intrinsic')
        return None
    if base in ('uadd', 'usub') and '.sat' in name:
        a, b = args
        if is_conc(a) and is_conc(b):
            regs[dest] = min(a + b, mask(bits)) if base == 'uadd' else max(a - b, 0)
        else:
            x, y = as_bv(a, bits), as_bv(b, bits)
            if base == 'uadd':
                r = x + y
                regs[dest] = simp(z3.If(z3.ULT(r, x), z3.BitVecVal(mask(bits), bits), r))
            else:
                regs[dest] = simp(z3.If(z3.ULT(x, y), z3.BitVecVal(0, bits), x - y))
        return None
    if base in ('ctpop', 'cttz', 'ctlz', 'bswap', 'bitreverse', 'abs', 'fshl', 'fshr'):
        if not all(is_conc(a) for a in args):
            raise Unsupported('symbolic %s' % name)
        a = args[0]
        if base == 'ctpop':
            regs[dest] = bin(a).count('1')
        elif base == 'cttz':
            regs[dest] = bits if a == 0 else (a & -a).bit_length() - 1
        elif base == 'ctlz':
            regs[dest] = bits - a.bit_length()
        elif base == 'bswap':
            regs[dest] = int.from_bytes(a.to_bytes(bits // 8, 'little'), 'big')
        elif base == 'bitreverse':
            regs[dest] = int(format(a, '0%db' % bits)[::-1], 2)
        elif base == 'abs':
            from exec import to_signed
            regs[dest] = abs(to_signed(a, bits)) & mask(bits)
        else:
            x, y, s = args
            s %= bits
            w = (x << bits) | y
            if base == 'fshl':
                regs[dest] = (w >> (bits - s)) & mask(bits) if s else x
            else:
                regs[dest] = (w >> s) & mask(bits)
        return None
    if base == 'is' and 'constant' in name:
        regs[dest] = 0
        return None
    if base == 'ptrmask':
        regs[dest] = eng.binop('and', args[0], args[1], 64)
        return None
    if name in ('llvm.x86.sse2.pause', 'llvm.aarch64.isb', 'llvm.aarch64.hint'):
        # core::hint::spin_loop(): a scheduling hint without effect on memory. Whether the loop around it waits for
        # another thread is decided by the loop analysis (C08: symbolic retry bound, cb: spin on unchanging memory).
        return None
    raise Unsupported('intrinsic %s' % name)


def verif_call(eng, st, fr, ins, name, args):
    regs = fr.regs
    dest = ins.dest
    if name == 'verif_nondet_u64':
        ident = args[0] if args and is_conc(args[0]) else 0
        h = eng.hooks.get('nondet')
        if h is not None:
            regs[dest] = h(eng, st, ident)
        else:
            s = fresh('nd%d' % ident, 64)
            st.marks.append(('nondet', ident, s, st.po, st.thread))
            regs[dest] = s
        return None
    if name == 'verif_assume':
        c = args[0]
        if is_conc(c):
            if not c:
                st.status = 'infeasible'
            return None
        cb = as_bool(c)
        if not eng.feasible(st, cb):
            st.status = 'infeasible'
            return None
        st.pc.append(cb)
        return None
    if name == 'verif_assert':
        c, ident = args[0], args[1]
        if is_conc(c):
            if not c:
                eng.oblige(st, 'assert', None, ident, ins, 'verif_assert(%s) fails at %s' % (ident, eng.loc(ins)))
                if eng.stop_on_assert:
                    st.status = 'assert-failed'
            return None
        cb = as_bool(c)
        if eng.feasible(st, z3.Not(cb)):
            eng.oblige(st, 'assert', cb, ident, ins, 'verif_assert(%s) may fail at %s' % (ident, eng.loc(ins)))
        # continue on the side where it holds
        if eng.feasible(st, cb):
            st.pc.append(cb)
        else:
            st.status = 'assert-failed'
        return None
    if name == 'verif_cover':
        ident = args[0]
        if ident not in st.covers:
            st.covers[ident] = [tuple(st.pc)]
        return None
    if name == 'verif_merge':
        return None      # joins are found automatically (immediate post-dominators); kept as a no-op marker
    if name == 'verif_mark':
        if eng.mark_hook is not None:
            eng.mark_hook(eng, st, args[0], args[1])
        st.marks.append(('mark', args[0], args[1], st.po, tuple(st.pc)))
        st.po += 1
        return None
    if name == 'verif_thread_gone':
        # the zombie phase of simulated thread t is over: its thread-local storage disappears
        t = args[0]
        for key in [k for k in st.tls_inst if k[0] == t]:
            st.live[st.tls_inst[key]] = False
            del st.tls_inst[key]
        return None
    if name == 'verif_set_thread':
        # a thread whose destructors have run is gone for good: a later use of the same id is a new thread
        for t_ in list(st.exiting):
            for key in [k for k in st.tls_inst if k[0] == t_]:
                st.live[st.tls_inst[key]] = False
                del st.tls_inst[key]
        st.exiting = set()
        t = args[0]
        outs = eng.concretize(st, t, ins, 'thread id')
        if len(outs) == 1 and outs[0][0] is st:
            st.thread = outs[0][1]
            return None
        res = []
        for s, x in outs:
            s.thread = x
            res.append(s)
        return res
    if name in ('verif_thread_exit', 'verif_thread_zombie'):
        t = args[0]
        if not is_conc(t):
            outs = eng.concretize(st, t, ins, 'thread id')
            res = []
            for s_, x in outs:
                f2 = s_.frames[-1]
                if ins.args and ins.args[0][1][0] == 'local':
                    f2.regs[ins.args[0][1][1]] = x
                f2.idx -= 1          # re-execute the call with the thread id pinned
                res.append(s_)
            return res
        return thread_exit(eng, st, fr, t, zombie=(name == 'verif_thread_zombie'))
    if name == 'verif_user_panic':
        st.marks.append(('user_panic', args[0] if args else 0, 0, st.po, tuple(st.pc)))
        if eng.unwind:
            st.unwinding = 0xdead0000
            return eng.start_unwind_here(st, fr, ins) or 'unwound'
        st.status = 'user-panicked'
        return None
    if name == 'verif_try':
        fa = args[0]
        fname = eng.addr_func.get(fa) if is_conc(fa) else None
        if fname is None:
            raise Unsupported('verif_try of a non-function')
        if not eng.unwind:
            raise Unsupported('verif_try needs the unwind flavour')
        eng.call_function(st, fname, [])
        st.frames[-1].catch = ins.dest
        return None
    if name == 'verif_tls_state':
        # harness helper: set the std lazy-TLS state byte of THREAD_HEAD for the current thread
        raise Unsupported('verif_tls_state')
    h = eng.hooks.get(name)
    if h is not None:
        return h(eng, st, fr, ins, args)
    raise Unsupported('unknown verif_ call %s' % name)


def thread_exit(eng, st, fr, t, zombie=False):
    """Run the TLS destructors registered by simulated thread t (std runs them at thread exit)."""
    dtors = st.tls_dtors.pop(t, [])
    saved = st.thread
    st.thread = t
    if not zombie:
        st.exiting = set(st.exiting) | {t}
    # push destructor frames; after they return, restore the thread id via a marker frame trick:
    # we run them one by one through call_function; the thread switch back is done by the harness
    # calling verif_set_thread afterwards (documented contract).
    for p, f in dtors:
        name = eng.addr_func.get(f)
        if name is None:
            raise Unsupported('TLS destructor is not a known function')
        eng.call_function(st, name, [p])
    return None
