"""Per-property scenario lists. Each function receives a check.Ctx and appends scenario results."""

PROPS = {}


def prop(pid):
    def deco(f):
        PROPS[pid] = f
        return f
    return deco


def tag(res, **kw):
    res.update(kw)
    for v in res.get('violations', []):
        v.flavor = kw.get('flavor', 'rel')
        v.features = kw.get('features', ())
        v.entry = res.get('entry', res.get('scenario'))
    return res


@prop('C13')
def c13(ctx):
    ctx.bounds.update({'threads': 1, 'loop_bound': 10, 'generation': 'any multiple of 4 (symbolic 64-bit)',
                       'guards_held': 8})
    ctx.outside += ['32-bit targets', 'allocation failure']
    flavors = ['rel'] if ctx.tier == 'quick' else ['rel', 'dbg', 'unw']
    for fl in flavors:
        s = ctx.session(fl)
        r = s.run_seq('c13_wrap_seq', covers=[1])
        ctx.add(tag(r, mode='M1', flavor=fl, sample={'scenario': 'c13_wrap_seq', 'generation': 'symbolic', 'paths': r['paths']}))
