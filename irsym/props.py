"""Per-property scenario lists. Each function receives a check.Ctx and appends scenario results."""

PROPS = {}


def prop(pid):
    def deco(f):
        PROPS[pid] = f
        return f
    return deco


def tag(res, **kw):
    res.update(kw)
    for v in res.get('violations', []):
        v.flavor = kw.get('flavor', 'rel')
        v.features = kw.get('features', ())
        v.entry = res.get('entry', res.get('scenario'))
    return res


@prop('C13')
def c13(ctx):
    ctx.bounds.update({'threads': 1, 'loop_bound': 10, 'generation': 'any multiple of 4 (symbolic 64-bit)',
                       'guards_held': 8})
    ctx.outside += ['32-bit targets', 'allocation failure']
    flavors = ['rel'] if ctx.tier == 'quick' else ['rel', 'dbg', 'unw']
    for fl in flavors:
        s = ctx.session(fl)
        r = s.run_seq('c13_wrap_seq', covers=[1])
        ctx.add(tag(r, mode='M1', flavor=fl, sample={'scenario': 'c13_wrap_seq', 'generation': 'symbolic', 'paths': r['paths']}))
        # the wrap moves the thread to another (spare) node while 8 guards live on in the retired one
        seq_run(ctx, 'c13_wrap_moved', flavor=fl)
    # the wrap while a writer is inside the retired node (helping), context-bounded
    cb_run(ctx, dict(SPECS['nf_wrap'], hang_is_violation=True), 3, features=('test-strategies',))
    cb_run(ctx, dict(SPECS['nf_iso_wrap'], hang_is_violation=True), 2, features=('test-strategies',))
    cb_run(ctx, dict(SPECS['nf_wrap'], focus=FOCUS), 5 if ctx.tier == 'quick' else 6, features=('test-strategies',))


def conc_run(ctx, spec, flavor='rel', features=(), **kw):
    import conc
    s = ctx.session(flavor, features)
    r = conc.run_conc(s, spec, **kw)
    return ctx.add(tag(r, flavor=flavor, features=features))


def cb_run(ctx, spec, K, flavor='rel', features=(), **kw):
    """context-bounded interleaving with concrete memory (cb.py)"""
    import cb
    s = ctx.session(flavor, features)
    r = cb.run_cb(s, spec, K=K, flavor=flavor, features=features, **kw)
    ctx.traces_validated += r.get('traces_validated', 0)
    if spec.get('focus'):
        ctx.bounds.setdefault('focused_context_bounded_runs', []).append(
            '%s: every schedule of its %d threads with at most %d preemptions placed before gated atomic steps of %s (the storage pointer and the helping protocol); switches elsewhere only when a thread finishes' % (
                spec['name'], len(spec['threads']), K, ', '.join(spec['focus'])))
    elif kw.get('subject'):
        ctx.bounds.setdefault('freeze_runs', []).append(
            '%s: the other %d thread(s) interleave with at most %d preemptions and are frozen at every gated atomic step in turn; thread %d then runs alone' % (
                spec['name'], len(spec['threads']) - 1, K, kw['subject']))
    else:
        ctx.bounds.setdefault('context_bounded_runs', []).append(
            '%s: every schedule of its %d threads with at most %d preemptions at gated atomic steps (free switches when a thread finishes)' % (
                spec['name'], len(spec['threads']), K))
    return ctx.add(tag(r, flavor=flavor, features=features))


def cb_set(ctx, names, K, **kw):
    for n in names:
        cb_run(ctx, SPECS[n], K, **kw)


W = 'cs_warm'
# focused runs: preemptions only before steps on the storage pointer and of the helping protocol (deeper K)
FOCUS = ('src/debt/helping.rs', 'src/strategy/hybrid.rs', 'src/lib.rs')
W0 = None     # cold thread: its first use of the crate (node allocation) is part of the body
# NOTE: the specs cas_aba, cas3, rcu2, rcu_reuse, lin2, lin_fb_own, iso_ba and nf_lin are kept for reference but are in no
# tier: with the current engine their extraction/queries do not finish within an hour (see DESIGN.md, Changes E).
SPECS = {
    # --- one container, reader || writer
    'a_fast': {'name': 'a_fast', 'setup': 'cs_setup1', 'threads': [(W, 'cs_r_load'), (W, 'cs_w_store1')],
               'final': 'cs_final1', 'covers': [11, 13]},
    'a_full': {'name': 'a_full', 'setup': 'cs_setup1', 'threads': [(W, 'cs_r_load_full'), (W, 'cs_w_store1')],
               'final': 'cs_final1', 'covers': [13]},
    'a_keep': {'name': 'a_keep', 'setup': 'cs_setup1', 'threads': [(W, 'cs_r_into_inner_keep'), (W, 'cs_w_store1')],
               'final': 'cs_final1', 'covers': [13]},
    # --- reader on the fallback path (8 fast slots taken by guards of container B)
    'b_fallback': {'name': 'b_fallback', 'setup': 'cs_setup2',
                   'threads': [('cs_fill8_t1', 'cs_r_fallback'), (W, 'cs_w_store1')],
                   'final': 'cs_final2_release', 'covers': [13, 14]},
    # --- reader holds 3 guards of A which the writer has to pay
    'b_held3': {'name': 'b_held3', 'setup': 'cs_setup1', 'threads': [('cs_fill3a_t1', 'cs_r_load'), (W, 'cs_w_store1')],
                'final': 'cs_final1_release', 'covers': [13]},
    # --- linearizability with progress flags
    'lin1': {'name': 'lin1', 'setup': 'cs_setup1', 'threads': [(W, 'cs_r_load_rt'), (W, 'cs_w_store1')],
             'final': 'cs_final1', 'covers': [12, 13]},
    'lin1_fb': {'name': 'lin1_fb', 'setup': 'cs_setup2', 'threads': [('cs_fill8_t1', 'cs_r_load_rt'), (W, 'cs_w_store1')],
                'final': 'cs_final2_release', 'covers': [12, 13]},
    'lin2': {'name': 'lin2', 'setup': 'cs_setup1', 'threads': [(W, 'cs_r_load2'), (W, 'cs_w_store12')],
             'final': 'cs_final1', 'covers': [13]},
    # --- two writers
    'swap2': {'name': 'swap2', 'setup': 'cs_setup1', 'threads': [(W, 'cs_w_swap1'), (W, 'cs_w_swap2')],
              'final': 'cs_final1', 'covers': [13]},
    'cas_aba': {'name': 'cas_aba', 'setup': 'cs_setup_pool', 'threads': [(W, 'cs_w_cas01'), (W, 'cs_w_swap2_store0')],
                'final': 'cs_final_cas', 'covers': [13]},
    'cas3': {'name': 'cas3', 'setup': 'cs_setup_pool', 'threads': [(W, 'cs_w_cas01'), (W, 'cs_w_swap_pool2_rec'), (W, 'cs_w_swap_pool0_rec')],
             'final': 'cs_final_cas3', 'covers': [13]},
    'rcu2': {'name': 'rcu2', 'setup': 'cs_setup_pool', 'threads': [(W, 'cs_w_rcu_t1'), (W, 'cs_w_rcu_t2')],
             'final': 'cs_final_rcu2', 'covers': [13]},
    'moved_guard': {'name': 'moved_guard', 'setup': 'cs_setup1', 'threads': [('cs_park_t1', 'cs_w_store1'), (W, 'cs_drop_parked')],
                    'final': 'cs_final1', 'covers': [13]},
    'wrap_conc': {'name': 'wrap_conc', 'setup': 'cs_setup2', 'threads': [('cs_fill8_wrap_t1', 'cs_r_fallback'), (W, 'cs_w_store1')],
                  'final': 'cs_final2_release', 'covers': [13, 14]},
    # --- C09: the subject (last thread) must finish alone after the others froze anywhere
    'solo_store': {'name': 'solo_store', 'setup': 'cs_setup_pool', 'threads': [(W, 'cs_r_load_only'), (W, 'cs_w_store_pool1')], 'covers': []},
    'solo_fb': {'name': 'solo_fb', 'setup': 'cs_setup_pool2', 'threads': [('cs_fill8_t1', 'cs_r_load_only'), (W, 'cs_w_store_pool1')], 'covers': []},
    'solo_cold': {'name': 'solo_cold', 'setup': 'cs_setup_pool', 'threads': [(W, 'cs_exit_t1'), (W, 'cs_w_store_pool1'), (None, 'cs_w_cold_store')], 'covers': []},
    # --- C07: publication (M2hb)
    'pub_fast': {'name': 'pub_fast', 'setup': 'cs_setup1_scribble', 'threads': [(W, 'cs_r_published'), (W, 'cs_w_publish1')], 'covers': []},
    'pub_full': {'name': 'pub_full', 'setup': 'cs_setup1_scribble', 'threads': [(W, 'cs_r_published_full'), (W, 'cs_w_publish1')], 'covers': []},
    'pub_fallback': {'name': 'pub_fallback', 'setup': 'cs_setup2_scribble', 'threads': [('cs_fill8_t1', 'cs_r_published'), (W, 'cs_w_publish1')], 'covers': []},
    'pub_swap': {'name': 'pub_swap', 'setup': 'cs_setup1_scribble', 'threads': [(W, 'cs_r_published'), (W, 'cs_w_publish_swap')], 'covers': []},
    'pub3': {'name': 'pub3', 'setup': 'cs_setup1_scribble', 'threads': [(W, 'cs_r_published3'), (W, 'cs_w_publish1'), (W, 'cs_w_publish3')], 'covers': []},
    'pub3_fb': {'name': 'pub3_fb', 'setup': 'cs_setup2_scribble', 'threads': [('cs_fill8_t1', 'cs_r_published3'), (W, 'cs_w_publish1'), (W, 'cs_w_publish3')], 'covers': []},
    'nf_pub': {'name': 'nf_pub', 'setup': 'nf_setup_scribble', 'threads': [('nf_warm', 'nf_r_published'), ('nf_warm', 'nf_w_publish1')], 'final': 'nf_final_pub', 'covers': [13]},
    'nf_pub3': {'name': 'nf_pub3', 'setup': 'nf_setup_scribble', 'threads': [('nf_warm', 'nf_r_published'), ('nf_warm', 'nf_w_publish1'), ('nf_warm', 'nf_w_publish3')], 'final': 'nf_final_pub', 'covers': [13]},
    # --- C08: reader against writers that complete whole writes between its steps
    'wf_fast': {'name': 'wf_fast', 'setup': 'cs_setup_pool', 'threads': [(W, 'cs_r_load_only'), (W, 'cs_w_store_pool12')], 'covers': []},
    'wf_full8': {'name': 'wf_full8', 'setup': 'cs_setup_pool2', 'threads': [('cs_fill8_t1', 'cs_r_load_only'), (W, 'cs_w_store_pool12')], 'covers': []},
    # --- deeper scenarios aimed at multi-step regressions
    'cache_rt': {'name': 'cache_rt', 'setup': 'cs_setup1', 'threads': [('cs_cache_init_t1', 'cs_r_cache_rt'), (W, 'cs_w_store12')],
                 'final': 'cs_final_cache', 'covers': [13, 15]},
    'lin_fb_own': {'name': 'lin_fb_own', 'setup': 'cs_setup3', 'threads': [('cs_fill8c_t1', 'cs_r_load_store_load'), (W, 'cs_w_store_a2')],
                   'final': 'cs_final3', 'covers': [13]},
    'iso_ba': {'name': 'iso_ba', 'setup': 'cs_setup3', 'threads': [('cs_fill8c_t1', 'cs_r_load_b_then_a'), (W, 'cs_w_store_b_pool3')],
               'final': 'cs_final3', 'covers': [13]},
    'rcu_reuse': {'name': 'rcu_reuse', 'setup': 'cs_setup_min', 'threads': [(W, 'cs_w_rcu_payload'), (W, 'cs_w_store_reuse')],
                  'final': 'cs_final_rcu_reuse', 'covers': [13]},
    'ser_conc': {'name': 'ser_conc', 'setup': 'cs_setup1', 'threads': [(W, 'c20_r_serialize'), (W, 'cs_w_store1')],
                 'final': 'cs_final1', 'covers': [13]},
    # --- fallback-only strategy (feature test-strategies): multi-operation readers on the helping path
    'nf_iso': {'name': 'nf_iso', 'setup': 'nf_setup', 'threads': [('nf_warm', 'nf_r_load_b_then_a'), ('nf_warm', 'nf_w_store_b3')],
               'final': 'nf_final', 'covers': [13]},
    'nf_lin': {'name': 'nf_lin', 'setup': 'nf_setup', 'threads': [('nf_warm', 'nf_r_load_store_load'), ('nf_warm', 'nf_w_store_a2')],
               'final': 'nf_final', 'covers': [13]},
    'nf_lin_rec': {'name': 'nf_lin_rec', 'setup': 'nf_setup', 'threads': [('nf_warm', 'nf_r_load_store_load_rec'), ('nf_warm', 'nf_w_store_a2')],
                   'final': 'nf_final_lin', 'covers': [13]},
    'nf_wrap': {'name': 'nf_wrap', 'setup': 'nf_setup', 'threads': [(None, 'nf_r_wrap_rec'), ('nf_warm', 'nf_w_store_a2')],
                'final': 'nf_final_lin', 'covers': [13]},
    'nf_churn': {'name': 'nf_churn', 'setup': 'nf_setup',
                 'threads': [(None, 'nf_r1_load_store_exit'), ('nf_warm', 'nf_w_store_a2'), (None, 'nf_r3_load_rec')],
                 'after': {3: 1}, 'final': 'nf_final_lin', 'covers': [13]},
    # --- Option container: null is a value like any other (C04)
    'opt_take2': {'name': 'opt_take2', 'setup': 'cs_setup_opt', 'threads': [(W0, 'cs_w_take_r0'), (W0, 'cs_w_take_r1')],
                  'final': 'cs_final_opt_take2', 'covers': [13]},
    'opt_clear': {'name': 'opt_clear', 'setup': 'cs_setup_opt', 'threads': [(W0, 'cs_w_take_r0'), (W0, 'cs_w_optswap1_r1')],
                  'final': 'cs_final_opt_clear', 'covers': [13]},
    'opt_store': {'name': 'opt_store', 'setup': 'cs_setup_opt', 'threads': [(W0, 'cs_w_optstore_none'), (W0, 'cs_w_optswap1_r1')],
                  'final': 'cs_final_opt_store', 'covers': [13]},
    # --- memory re-use (a freed value's address handed out again) against compare_and_swap and the Cache
    'cas_reuse': {'name': 'cas_reuse', 'setup': 'r3_setup_cas', 'threads': [(W, 'r3_cas_guard_forms'), (W, 'r3_store_reuse')],
                  'final': 'r3_final_cas', 'covers': [13]},
    'cache_reuse': {'name': 'cache_reuse', 'setup': 'r3_setup_cas', 'threads': [('r3_cache_init', 'r3_cache_load2'), (W, 'r3_cache_writer')],
                    'final': 'r3_final_cache', 'covers': [13]},
    'cache_reuse1': {'name': 'cache_reuse1', 'setup': 'r3_setup_cas', 'threads': [('r3_cache_init', 'r3_cache_load1'), (W, 'r3_cache_writer')],
                     'final': 'r3_final_cache', 'covers': [13]},
    'rcu_aba': {'name': 'rcu_aba', 'setup': 'cs_setup_pool', 'threads': [(W, 'r3_rcu_next'), (W, 'cs_w_swap2_store0')],
                'final': 'r3_final_rcu_aba', 'covers': [13]},
    'rcu_aba3': {'name': 'rcu_aba3', 'setup': 'cs_setup_pool', 'threads': [(W, 'r3_rcu_next'), (W, 'r3_swap2_rec'), (W, 'r3_store0')],
                 'after': {3: 2}, 'final': 'r3_final_rcu_aba', 'covers': [13]},
    # --- fallback-only strategy: the wrap moves the reader of A onto the node of an exited thread that last read B
    'nf_iso_wrap': {'name': 'nf_iso_wrap', 'setup': 'nf_setup',
                    'threads': [('nf_warm', 'nf_r_wrap_a'), ('nf_pre_load_b', 'nf_exit_t2'), ('nf_warm', 'nf_w_store_b3')],
                    'final': 'nf_final', 'covers': [13]},
    'nf_churn_min': {'name': 'nf_churn_min', 'setup': 'nf_setup',
                     'threads': [('nf_warm', 'nf_r1_load_exit'), ('nf_warm', 'nf_w_store_a2'), (None, 'nf_r3_store_load_rec')],
                     'after': {3: 1}, 'final': 'nf_final_lin', 'covers': [13]},
    # --- two new threads race for the node an exited thread left behind
    'nf_claim2': {'name': 'nf_claim2', 'setup': 'nf_setup',
                  'threads': [('nf_warm', 'nf_exit_t1'), (None, 'nf_r_new_load2'), (None, 'nf_r_new_load2')],
                  'final': 'nf_final', 'covers': [13]},
    # --- C18 under contention: the armed destructor of obj0 panics wherever its last reference is released
    'pb_cas': {'name': 'pb_cas', 'setup': 'pb_setup', 'threads': [('pb_warm', 'pb_t1_cas_raw'), ('pb_warm', 'pb_t2_swap1')], 'final': 'pb_final', 'covers': [13, 16]},
    'pb_rcu': {'name': 'pb_rcu', 'setup': 'pb_setup', 'threads': [('pb_warm', 'pb_t1_rcu'), ('pb_warm', 'pb_t2_swap1')], 'final': 'pb_final', 'covers': [13, 16]},
    'pb_load': {'name': 'pb_load', 'setup': 'pb_setup', 'threads': [('pb_warm', 'pb_t1_load_drop'), ('pb_warm', 'pb_t2_swap1')], 'final': 'pb_final', 'covers': [13, 16]},
    'pbn_load': {'name': 'pbn_load', 'setup': 'pbn_setup', 'threads': [('pbn_warm', 'pbn_t1_load_drop'), ('pbn_warm', 'pbn_t2_swap1')], 'final': 'pbn_final', 'covers': [13, 16]},
    # --- projections loaded on the fast / fallback path while a writer replaces the value
    'map_fast': {'name': 'map_fast', 'setup': 'cs_setup2', 'threads': [(W, 'r3_map_loads'), (W, 'cs_w_store1')],
                 'final': 'r3_final_map', 'covers': [13]},
    'map_fb': {'name': 'map_fb', 'setup': 'cs_setup2', 'threads': [('cs_fill8_t1', 'r3_map_loads'), (W, 'cs_w_store1')],
               'final': 'r3_final_map', 'covers': [13]},
    # --- C09 freeze mode (cb.py subject=): the LAST thread is the subject; the others get frozen anywhere
    'frz_fast': {'name': 'frz_fast', 'setup': 'cs_setup_pool', 'threads': [(W, 'c9_r_load2'), (W, 'c9_s_writer_ops')], 'covers': [13]},
    'frz_fb': {'name': 'frz_fb', 'setup': 'cs_setup_pool2', 'threads': [('cs_fill8_t1', 'cs_r_load_only'), (W, 'c9_s_writer_ops')], 'covers': [13]},
    'frz_wr': {'name': 'frz_wr', 'setup': 'cs_setup_pool2', 'threads': [('cs_fill8_t1', 'cs_r_load_only'), (W, 'cs_w_store_pool12'), (W, 'c9_s_writer_ops')], 'covers': [13]},
    'frz_consume': {'name': 'frz_consume', 'setup': 'cs_setup_pool2', 'threads': [('cs_fill8_t1', 'cs_r_load_only'), (W, 'cs_w_store_pool1'), (W, 'c9_s_consume')], 'covers': [13]},
    'frz_release': {'name': 'frz_release', 'setup': 'cs_setup_pool2', 'threads': [('cs_fill8_t1', 'cs_r_load_only'), (W, 'c9_w_store_b1'), ('c9_fill8_t2', 'c9_s_release_then_store')], 'covers': [13]},
    'frz_cold': {'name': 'frz_cold', 'setup': 'cs_setup_pool', 'threads': [(W, 'cs_exit_t1'), (W, 'cs_w_store_pool1'), (None, 'c9_s_writer_ops')], 'covers': [13]},
    'frz_nf': {'name': 'frz_nf', 'setup': 'nf_setup', 'threads': [('nf_warm', 'nf_r_load2'), ('nf_warm', 'nf_w_store_a2'), ('nf_warm', 'nf_s_writer_ops')], 'covers': [13]},
    # --- two containers: writer of B walks the node of a reader of A which is on the fallback path
    'iso_b': {'name': 'iso_b', 'setup': 'cs_setup2', 'threads': [('cs_fill8_t1', 'cs_r_fallback'), (W, 'cs_w_store_b3')],
              'final': 'cs_final2_release', 'covers': [13, 14]},
}


def conc_set(ctx, names, **kw):
    for n in names:
        conc_run(ctx, SPECS[n], loop_bound=3, **kw)


CONC_BOUNDS = {'threads': 2, 'memory_model': 'sequential consistency: ALL interleavings of the extracted atomic and plain accesses',
               'symbolic_retry_iterations': 3, 'spurious_weak_cas_failures_per_path': 1, 'objects': '4 pool values',
               'address_reuse': 'off (every allocation gets a fresh address)'}
CONC_OUTSIDE = ['more than 2 concurrent threads / more operations per thread than listed', 'executions that are not sequentially consistent (stale relaxed reads, store buffering)',
                'allocator address reuse (ABA through freed addresses)']


@prop('C01')
def c01(ctx):
    ctx.bounds.update(CONC_BOUNDS)
    ctx.bounds['scenarios'] = 'reader(load|load_full|into_inner) || writer(store): fast slot, 3 debts the writer must pay, fallback path with 8 slots held, guard created on one thread and dropped on another while its creator stores'
    ctx.outside += CONC_OUTSIDE
    conc_set(ctx, ['a_fast', 'a_full', 'moved_guard'] if ctx.tier == 'quick' else ['a_fast', 'moved_guard', 'a_full', 'a_keep', 'b_held3', 'b_fallback', 'iso_b'])
    seq_run(ctx, 'c10_seq_threads')
    if ctx.tier == 'quick':
        cb_set(ctx, ['a_full', 'b_fallback'], 2)
    else:
        cb_set(ctx, ['a_fast', 'a_full', 'a_keep', 'b_held3', 'b_fallback', 'iso_b', 'moved_guard'], 3)
    # deeper, preemptions focused on the storage pointer and the helping protocol
    cb_run(ctx, dict(SPECS['b_fallback'], focus=FOCUS), 4 if ctx.tier == 'quick' else 6)
    cb_run(ctx, dict(SPECS['nf_lin_rec'], focus=FOCUS), 4 if ctx.tier == 'quick' else 5, features=TS)


@prop('C02')
def c02(ctx):
    ctx.bounds.update(CONC_BOUNDS)
    ctx.bounds['oracle'] = 'after all threads: every count equals the number of owners, every debt slot of every node is empty'
    ctx.outside += CONC_OUTSIDE
    conc_set(ctx, ['a_keep', 'swap2'] if ctx.tier == 'quick' else ['a_keep', 'swap2', 'a_fast', 'a_full', 'b_held3', 'moved_guard'])
    seq_run(ctx, 'c14_default_2', covers=(1, 2))
    seq_run(ctx, 'c14_cursor')
    seq_run(ctx, 'c10_seq_threads')
    cb_set(ctx, ['a_keep', 'swap2', 'b_held3'], 2 if ctx.tier == 'quick' else 3)


@prop('C03')
def c03(ctx):
    ctx.bounds.update(CONC_BOUNDS)
    ctx.bounds['oracle'] = 'writer publishes STARTED/DONE progress flags (SeqCst); a load returns a value index between DONE-before-the-call and STARTED-after-it; two loads of one thread never go backwards'
    ctx.outside += CONC_OUTSIDE
    conc_set(ctx, ['lin1'] if ctx.tier == 'quick' else ['lin1', 'lin1_fb'], timeout_s=1200)
    # reader on the helping path doing load; store; load against a helping writer (NoFastSlots), context-bounded
    cb_run(ctx, SPECS['nf_lin_rec'], 3, features=TS)
    # the same oracle across thread churn: the reader exits, a new thread takes over its node while a helping writer
    # may still be inside it (a load that started after a store returned must not come back with an older value)
    cb_run(ctx, SPECS['nf_churn'], 3, features=TS)
    # deeper, with the preemptions focused on the storage pointer and the helping protocol: a writer overtaken by a
    # thread exit AND by the start of the node's next owner needs four of them
    cb_run(ctx, dict(SPECS['nf_churn_min'], focus=FOCUS), 4, features=TS)
    cb_run(ctx, dict(SPECS['nf_lin_rec'], focus=FOCUS), 4 if ctx.tier == 'quick' else 5, features=TS)
    cb_run(ctx, dict(SPECS['nf_churn'], focus=FOCUS), 5 if ctx.tier == 'quick' else 6, features=TS)
    if ctx.tier != 'quick':
        cb_set(ctx, ['lin1', 'lin1_fb'], 3)
        # churn with 4 preemptions on a minimal scenario (a writer that is overtaken by a thread exit AND by the start
        # of the next owner of the node needs that many): about 2 million schedules
        cb_run(ctx, SPECS['nf_churn_min'], 4, features=TS, timeout_s=3000)


@prop('C04')
def c04(ctx):
    ctx.bounds.update(CONC_BOUNDS)
    ctx.bounds['oracle'] = 'two concurrent swaps / cas+swap+store: every value put in comes out exactly once (returned handle or final content), returned handles own a full reference'
    ctx.outside += CONC_OUTSIDE
    conc_set(ctx, ['swap2'])
    cb_run(ctx, SPECS['swap2'], 2 if ctx.tier == 'quick' else 3)
    cb_run(ctx, SPECS['cas_aba'], 3)
    cb_run(ctx, dict(SPECS['cas_aba'], focus=FOCUS), 5)
    # Option container: clearing (swap(None), store(None)) is a write like any other
    cb_set(ctx, ['opt_take2', 'opt_clear', 'opt_store'], 2 if ctx.tier == 'quick' else 3)
    if ctx.tier != 'quick':
        cb_run(ctx, SPECS['cas3'], 2)


@prop('C05')
def c05(ctx):
    ctx.bounds.update({'forms_of_current': ['&Arc', '&Guard', 'Guard', '*const T', '*mut T', 'None / null'], 'values': 'current, expected and new symbolic over a pool of 3 (+None)'})
    seq_run(ctx, 'c05_forms')
    seq_run(ctx, 'c05_forms_option')
    # cas(obj0 -> obj1) racing swap(obj2); store(obj0): the A-B-A schedules need 3 preemptions
    cb_run(ctx, SPECS['cas_aba'], 3)
    cb_run(ctx, dict(SPECS['cas_aba'], focus=FOCUS), 5)
    # `current` given as Guard / &Guard / &pointer while another thread frees the value and a new one re-uses its memory
    ctx.bounds['address_reuse'] = 'scenario cas_reuse: a freed pool object is brought to life again as a NEW value at the same address'
    cb_run(ctx, SPECS['cas_reuse'], 2 if ctx.tier == 'quick' else 3)


@prop('C06')
def c06(ctx):
    ctx.bounds.update(CONC_BOUNDS)
    ctx.bounds['oracle'] = 'two concurrent rcu "increments" end at +2, the returned previous values form the chain 0,1; sequential: re-entrant closure, retry (C14/C18 scenarios)'
    ctx.outside += CONC_OUTSIDE
    seq_run(ctx, 'c18_rcu', flavor='unw')
    # rcu racing store; store where the second store re-uses the memory of the value rcu started from
    cb_run(ctx, SPECS['rcu_reuse'], 2 if ctx.tier == 'quick' else 3)
    cb_run(ctx, SPECS['rcu2'], 1 if ctx.tier == 'quick' else 2)
    # rcu against an A-B-A of the stored pointer (swap(B) and store(A) by other threads while rcu is between its load and its exchange)
    cb_run(ctx, SPECS['rcu_aba3'], 2)
    cb_run(ctx, dict(SPECS['rcu_aba'], focus=FOCUS), 4 if ctx.tier == 'quick' else 5)
    if ctx.tier != 'quick':
        cb_run(ctx, SPECS['rcu_aba'], 3)


@prop('C12')
def c12(ctx):
    ctx.bounds.update(CONC_BOUNDS)
    ctx.bounds['scenario'] = 'reader of A on the fallback path (slots full of guards of B) || writer of B walking its node; plus sequential sharing of one value by two containers'
    ctx.outside += CONC_OUTSIDE
    seq_run(ctx, 'c12_shared_value')
    conc_set(ctx, ['iso_b'])
    cb_run(ctx, SPECS['nf_iso'], 3, features=TS)
    cb_run(ctx, SPECS['iso_b'], 2 if ctx.tier == 'quick' else 3)
    # the reader of A moves (generation wrap) onto the node of an exited thread that last read B, a writer of B walks by
    cb_run(ctx, SPECS['nf_iso_wrap'], 2, features=TS)
    cb_run(ctx, dict(SPECS['nf_iso'], focus=FOCUS), 5 if ctx.tier == 'quick' else 6, features=TS)
    if ctx.tier != 'quick':
        ctx.bounds['helping_path'] = 'scenario nf_iso on HybridStrategy<NoFastSlots>: reader alternates helping loads of B and A while a writer of B helps it'
        conc_run(ctx, SPECS['nf_iso'], features=TS, loop_bound=3, timeout_s=1200)


def seq_run(ctx, entry, flavor='rel', features=(), covers=(1,), **kw):
    s = ctx.session(flavor, features)
    r = s.run_seq(entry, covers=list(covers), **kw)
    r['mode'] = 'M1'
    r['sample'] = {'scenario': entry, 'paths': r['paths'], 'statuses': r['statuses']}
    return ctx.add(tag(r, flavor=flavor, features=features))


TS = ('test-strategies',)


@prop('C14')
def c14(ctx):
    ctx.bounds.update({'program_length': 2 if ctx.tier == 'quick' else 3, 'containers': 1, 'pool_values': 3,
                       'guards_held': 2, 'operations': 'load(kept), load_full, guard drop, store, swap, compare_and_swap, rcu, Guard::into_inner/from_inner, into_inner',
                       'strategies': ['DefaultStrategy', 'HybridStrategy<NoFastSlots>', 'RwLock<()>']})
    ctx.outside += ['programs longer than the bound', 'several containers in one program']
    n = '2' if ctx.tier == 'quick' else '3'
    seq_run(ctx, 'c14_default_' + n, covers=(1, 2), max_paths=400000)
    seq_run(ctx, 'c14_cursor')
    # guards held across the wrap of the helping generation and across later writes (default strategy only: the
    # other two have no generation): counts and identities as the plain-variable model says
    seq_run(ctx, 'c13_wrap_seq')
    seq_run(ctx, 'c13_wrap_moved')
    seq_run(ctx, 'c14_nofast_' + n, features=TS, covers=(1, 2), max_paths=400000)
    seq_run(ctx, 'c14_rwlock_' + n, features=TS, covers=(1, 2), max_paths=400000)
    # the same driver on an Option container: None (null) is stored, swapped, compared (as &None and as a null raw
    # pointer) and rotated through by rcu like any other value
    ctx.bounds['option_container'] = 'programs of length 2 (thorough: 3 for the default strategy) over {Some(a), Some(b), None} for all three strategies'
    seq_run(ctx, 'c14o_default_2', covers=(1, 2), max_paths=400000)
    seq_run(ctx, 'c14o_nofast_2', features=TS, covers=(1, 2), max_paths=400000)
    seq_run(ctx, 'c14o_rwlock_2', features=TS, covers=(1, 2), max_paths=400000)
    if ctx.tier != 'quick':
        seq_run(ctx, 'c14_default_3', flavor='dbg', covers=(1, 2), max_paths=400000)
        seq_run(ctx, 'c14o_default_3', covers=(1, 2), max_paths=400000)


@prop('C16')
def c16(ctx):
    ctx.bounds.update({'program_length': 3 if ctx.tier == 'quick' else 5, 'caches': 'cache, clone, mapped cache', 'pool_values': 3})
    seq_run(ctx, 'c16_seq_3' if ctx.tier == 'quick' else 'c16_seq_5', max_paths=400000)
    seq_run(ctx, 'c16_option')
    cb_run(ctx, SPECS['cache_rt'], 2 if ctx.tier == 'quick' else 3)
    # a value the cache has seen is freed and its memory re-used by a later value
    cb_run(ctx, SPECS['cache_reuse1'], 2)
    if ctx.tier != 'quick':
        cb_run(ctx, SPECS['cache_reuse'], 3)
    if ctx.tier != 'quick':
        ctx.bounds['concurrent'] = 'cache.load() on one thread against two stores with progress flags on another (all SC interleavings): freshness after a completed store'
        conc_run(ctx, SPECS['cache_rt'], loop_bound=3, timeout_s=900)


@prop('C17')
def c17(ctx):
    ctx.bounds.update({'projection_depth': 2, 'access_forms': ['&ArcSwap', 'Map<&ArcSwap>', 'Map<&Map>', 'Map<Arc<ArcSwap>>', 'Box<dyn DynAccess>', 'Constant'],
                       'stores': 'one before and one during the guards (symbolic values)'})
    seq_run(ctx, 'c17_access')
    seq_run(ctx, 'c17_access_threads')
    # Map / boxed DynAccess loads (fast path, and fallback path with 8 guards held) while another thread replaces the value
    ctx.bounds['concurrent'] = 'Map and Box<dyn DynAccess> loads against one concurrent store, every schedule with at most 2 (thorough: 3) preemptions'
    cb_set(ctx, ['map_fast', 'map_fb'], 2 if ctx.tier == 'quick' else 3)
    if ctx.tier != 'quick':
        seq_run(ctx, 'c17_access', flavor='dbg')


@prop('C18')
def c18(ctx):
    ctx.level = 'fault_enumeration'
    ctx.bounds.update({'panic_points': ['rcu closure attempt 1', 'rcu closure attempt 2 (retry forced by re-entrant store)',
                                        'Drop of the replaced value inside store', 'Drop of the rejected new value inside compare_and_swap',
                                        'projection inside Map::load'], 'threads': 'sequential, follow-up operations on a second simulated thread',
                       'flavour': 'panic=unwind: landing pads, cleanup and resume are executed'})
    ctx.outside += ['panics with more than two threads involved', 'Clone of a custom pointee']
    for e in ['c18_rcu', 'c18_rcu_drop', 'c18_store_drop', 'c18_cas_reject', 'c18_map']:
        seq_run(ctx, e, flavor='unw')
    # under contention: the destructor of the replaced value panics wherever its last reference happens to be released
    # (inside compare_and_swap / rcu retries, a guard drop, the writer's drop of the old value, the fallback load's
    # release of an unused candidate) - context-bounded, panic=unwind flavour
    ctx.bounds['concurrent'] = ('2 threads: {compare_and_swap with a raw `current` | rcu | load + guard drop} against swap + drop of the old value, '
                                'armed destructor on the initial value; default strategy (K=%d) and fallback-only strategy (helping path, K=3)' % (2 if ctx.tier == 'quick' else 3))
    cb_set(ctx, ['pb_cas', 'pb_rcu', 'pb_load'], 2 if ctx.tier == 'quick' else 3, flavor='unw')
    cb_run(ctx, SPECS['pbn_load'], 3, flavor='unw', features=TS)


@prop('C20')
def c20(ctx):
    ctx.bounds.update({'values': 'symbolic u64 / bool scalars, a 2-field struct, Option (Some/None)', 'strategies': ['DefaultStrategy']})
    ctx.outside += ['strings, sequences, maps and nested collections as pointee values', 'RwLock strategy for Deserialize (needs Default; same generic code)']
    seq_run(ctx, 'c20_ser', features=('serde',))
    seq_run(ctx, 'c20_de', features=('serde',))
    conc_run(ctx, SPECS['ser_conc'], features=('serde',), loop_bound=3)
    cb_run(ctx, SPECS['ser_conc'], 3, features=('serde',))


@prop('C15')
def c15(ctx):
    import kani_check
    ctx.bounds.update({'pointer_kinds': ['Arc', 'Rc', 'Option<Arc>', 'Option<Rc>', 'sync::Weak', 'rc::Weak'],
                       'pointee_types': ['u32', '() (zero sized)', '#[repr(align(64))] struct'],
                       'count_states': 'unique / shared / with weak refs (kani::any); Weak: dangling / live / target dropped',
                       'unwind': 3})
    ctx.outside += ['nested Option<Option<..>> (not accepted by the trait)', 'allocation failure',
                    'a container of Weak not keeping its target alive is checked by irsym (scenario c15_weak_container)']
    ctx.notes.append('Kani 0.68 / CBMC 6.11 with unwinding assertions; std pointer types are the real ones')
    ctx.add(kani_check.check(ctx))
    seq_run(ctx, 'c15_weak_container', features=('weak',))


@prop('C19')
def c19(ctx):
    import autotrait
    ctx.level = 'other'
    ctx.bounds.update({'wrappers': ['ArcSwapAny', 'Guard', 'Cache', 'MapCache', 'MapGuard', 'Map', 'DynGuard'],
                       'strategies': ['DefaultStrategy (= IndependentStrategy)'],
                       'pointer_kinds': [p for _, p in autotrait.POINTERS]})
    ctx.outside += ['the fixed table of std auto-trait facts (Arc, Rc, Option, Cell, PhantomData, &T, ...)',
                    'RwLock<()> strategy (internal test strategy)', 'user-defined RefCnt pointer types']
    ctx.extra['explanation'] = ('fact base = Send/Sync impls (incl. compiler-synthesized) from rustdoc JSON of the current tree; '
                                'z3 decides, per wrapper and trait, whether an instantiation exists where the wrapper is '
                                'Send/Sync and the stored pointer is not (and conversely); models are compiled with rustc')
    r = autotrait.check(ctx)
    ctx.extra['derivations'] = r.pop('all_samples')
    ctx.add(r)



@prop('C08')
def c08(ctx):
    import conc
    ctx.bounds.update({'reader': 'one load (fast path; and with 8 guards held -> fallback/helping path)',
                       'environment': 'every shared read returns any value other threads can write there (domains from 2 complete writes + helping), unconstrained across reads',
                       'symbolic_loop_iterations_allowed': 2})
    ctx.outside += ['first use of the crate on a thread and the generation wrap (Node::get is lock-free only: documented exception)']
    for name in ['wf_fast', 'wf_full8']:
        s = ctx.session('rel')
        r = conc.run_havoc(s, SPECS[name])
        ctx.add(tag(r, flavor='rel'))
    # "the read never waits for any other thread to move", including at the generation wrap (where the load may take the
    # lock-free Node::get path but still must not wait): context-bounded runs in which a load that goes round a loop on
    # unchanging memory while the writer is suspended (anywhere, e.g. inside the reader's node) is the violation
    ctx.bounds['waiting'] = 'reader loads (fast, fallback, helping path incl. the generation wrap) against a writer suspended at any gated step: a loop that iterates more than 200 times on unchanging memory is reported as waiting and confirmed natively by suspending the writer for ever'
    cb_run(ctx, dict(SPECS['nf_wrap'], hang_is_violation=True), 3, features=TS)
    cb_run(ctx, dict(SPECS['b_fallback'], hang_is_violation=True), 2 if ctx.tier == 'quick' else 3)
    if ctx.tier != 'quick':
        cb_run(ctx, dict(SPECS['nf_lin_rec'], hang_is_violation=True), 3, features=TS)
        cb_run(ctx, dict(SPECS['a_fast'], hang_is_violation=True), 3)


@prop('C10')
def c10(ctx):
    ctx.bounds.update({'sequential_histories': 'n in 0..10 guards created on thread 1; thread 1 exits; optional re-claim of its node by a new thread; optional store by a third thread; guards dropped on another thread; container consumed',
                       'concurrent': '2 threads: guard created by thread 1 dropped on thread 2 while thread 1 stores (thorough)'})
    seq_run(ctx, 'c10_seq_threads')
    seq_run(ctx, 'c10_seq_container_drop')
    if ctx.tier != 'quick':
        seq_run(ctx, 'c10_seq_threads', flavor='dbg')
        conc_run(ctx, SPECS['moved_guard'], loop_bound=3)
    cb_run(ctx, SPECS['moved_guard'], 3)


@prop('C11')
def c11(ctx):
    ctx.bounds.update({'histories': 'symbolic sequences of length %d over {thread t reads, thread t writes, thread t exits}, t in 1..3' % (3 if ctx.tier == 'quick' else 4),
                       'shutdown': 'load / store / swap executed on a thread whose thread-local storage is already torn down'})
    ctx.outside += ['a writer walking a node at the very moment its thread exits or is re-claimed (needs the concurrent mode with thread exit; see DESIGN.md)']
    seq_run(ctx, 'c11_churn_3' if ctx.tier == 'quick' else 'c11_churn_4', max_paths=100000)
    seq_run(ctx, 'c11_shutdown_ops')
    # a thread exits and a new one starts while a helping writer is still inside the first one's node
    cb_run(ctx, SPECS['nf_churn'], 3, features=TS)
    # two new threads race for the node an exited thread left behind: it must end up with one of them only
    cb_run(ctx, SPECS['nf_claim2'], 2 if ctx.tier == 'quick' else 3, features=TS)
    cb_run(ctx, dict(SPECS['nf_churn'], focus=FOCUS), 5 if ctx.tier == 'quick' else 6, features=TS)
    if ctx.tier != 'quick':
        seq_run(ctx, 'c11_shutdown_ops', flavor='dbg')
        cb_run(ctx, SPECS['nf_claim2'], 2, flavor='dbg', features=TS)


@prop('C07')
def c07(ctx):
    import conc
    ctx.bounds.update({'threads': 2, 'memory_model': 'SC executions judged by C11 happens-before (release/acquire/SeqCst, acquire fences, release sequences through one RMW); stale relaxed reads are NOT explored',
                       'paths': ['fast slot (guard)', 'load_full', 'fallback with confirmed debt (8 slots held)', 'previous value returned by swap', 'destruction of the replaced value']})
    ctx.outside += ['executions that are not sequentially consistent (store buffering / stale relaxed reads)', 'schedules with more preemptions than the stated K in the three-thread scenarios', 'address reuse']
    names = ['pub_fast'] if ctx.tier == 'quick' else ['pub_fast', 'pub_full', 'pub_swap', 'pub_fallback']
    for n in names:
        s = ctx.session('rel')
        r = conc.run_conc(s, SPECS[n], loop_bound=3, hb=True, timeout_s=900)
        ctx.add(tag(r, flavor='rel'))
    # the same judgement on every context-bounded schedule: C11 happens-before recomputed by vector clocks over the
    # concrete event sequence of each explored path (release sequences through any number of read-modify-writes,
    # fences, chains through any number of threads); deeper scenarios: the helping path with a writer that helps, two
    # publishing writers (the helper is not the writer whose value is handed over)
    ctx.bounds['context_bounded_hb'] = ('every explored schedule (at most K preemptions) is one SC execution; happens-before is recomputed on it with per-thread '
                                        'vector clocks (sw: acquire read / acquire fence after a read of a release-or-stronger write or of its release sequence; release fences); '
                                        'a conflicting pair on the pointee payload (init write, reads through handles, destructor write) not ordered by it is a race, confirmed under Miri')
    K = 2 if ctx.tier == 'quick' else 3
    for n in ['pub_fast', 'pub_full', 'pub_swap', 'pub_fallback']:
        cb_run(ctx, dict(SPECS[n], hb=True), K)
    cb_run(ctx, dict(SPECS['nf_pub'], hb=True), 3, features=TS)
    cb_run(ctx, dict(SPECS['pub3_fb'], hb=True), 1 if ctx.tier == 'quick' else 2)
    cb_run(ctx, dict(SPECS['nf_pub3'], hb=True), 1 if ctx.tier == 'quick' else 2, features=TS)
    if ctx.tier != 'quick':
        cb_run(ctx, dict(SPECS['pub3'], hb=True), 2)



@prop('C09')
def c09(ctx):
    import conc
    ctx.bounds.update({'encoding': 'every other thread stops (is suspended for ever) after an arbitrary prefix of its events (symbolic cut), the subject then runs alone; a retry loop of the subject that iterates more than %d times on symbolic conditions, or a blocking call, is the violation' % 2,
                       'subjects': ['store while a reader is frozen anywhere in a fast-path load', 'store while a reader is frozen anywhere in the fallback/helping load',
                                    'first-use store by a new thread while another thread exited and a writer is frozen inside the debt walk (thorough)'],
                       'memory_model': 'SC'})
    ctx.outside += ['subjects other than store/swap started from a quiescent thread', 'more than 2 frozen threads']
    names = [('solo_store', 2), ('solo_cold', 3)] if ctx.tier == 'quick' else [('solo_store', 2), ('solo_fb', 2), ('solo_cold', 3)]
    for n, subj in names:
        s = ctx.session('rel')
        r = conc.run_conc(s, SPECS[n], loop_bound=2, subject=subj, timeout_s=900)
        ctx.add(tag(r, flavor='rel'))
    # freeze mode with concrete memory: the subject goes through every writer-side operation
    ctx.bounds['freeze_mode'] = ('the other threads interleave with at most K preemptions and are then suspended for ever at an arbitrary gated atomic step '
                                 '(or have finished); the subject thread then runs store, compare_and_swap (hit and miss), rcu, swap, load_full, guard drop '
                                 '(and into_inner / container drop / release of 8 held guards in separate scenarios) alone; a loop iterating more than 200 times or a blocking call is the violation')
    q = ctx.tier == 'quick'
    for n, k in [('frz_fast', 0), ('frz_fb', 0), ('frz_wr', 0 if q else 1), ('frz_consume', 1), ('frz_release', 1), ('frz_cold', 1 if q else 2)]:
        cb_run(ctx, SPECS[n], k, subject=len(SPECS[n]['threads']))
    cb_run(ctx, SPECS['frz_nf'], 0 if q else 1, features=TS, subject=3)
