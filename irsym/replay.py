"""Replay of solver-found counterexamples against the natively compiled crate (hooks ON)."""
import os
import re
import subprocess

import build

REPLAY_DIR = os.path.join(build.ROOT, 'replays')


def write_replay(path, mode, entries, nondet=None, schedule=None, setup=None, final=None, comment='', flavor='rel',
                 features=()):
    os.makedirs(os.path.dirname(path), exist_ok=True)
    with open(path, 'w') as f:
        for line in comment.split('\n'):
            if line:
                f.write('# %s\n' % line)
        f.write('flavor %s\n' % flavor)
        f.write('features %s\n' % ','.join(features))
        f.write('mode %s\n' % mode)
        if setup:
            f.write('setup %s\n' % setup)
        for e in entries:
            f.write('entry %s\n' % e)
        if final:
            f.write('final %s\n' % final)
        for t, lst in sorted((nondet or {}).items()):
            for ident, v in lst:
                f.write('nondet %d %d %d\n' % (t, ident, v))
        if schedule:
            for i in range(0, len(schedule), 40):
                f.write('schedule %s\n' % ' '.join(str(x) for x in schedule[i:i + 40]))
    return path


def read_header(path):
    flavor, feats = 'rel', ()
    for line in open(path):
        w = line.split()
        if len(w) >= 2 and w[0] == 'flavor':
            flavor = w[1]
        if len(w) >= 2 and w[0] == 'features':
            feats = tuple(x for x in w[1].split(',') if x)
    return flavor, feats


def run_valgrind(path, timeout=300):
    """Memory errors on real Arc/Weak blocks are silent natively: confirm them under valgrind memcheck."""
    flavor, feats = read_header(path)
    binp = build.build_native(flavor, feats)
    try:
        r = subprocess.run(['valgrind', '--error-exitcode=99', '--quiet', binp, path], stdout=subprocess.PIPE,
                           stderr=subprocess.STDOUT, text=True, timeout=timeout)
    except subprocess.TimeoutExpired:
        return False, 'valgrind timed out'
    bad = r.returncode == 99 or 'Invalid read' in r.stdout or 'Invalid write' in r.stdout or 'Invalid free' in r.stdout
    return bad, r.stdout[-3000:]


def run_miri(path, timeout=900):
    """Data races cannot show natively on x86: the replayed schedule is run under Miri (nightly), whose C11
    vector-clock detector judges the real code. The gate's own atomics are Relaxed, so they add no
    happens-before edges of their own."""
    flavor, feats = read_header(path)
    env = dict(os.environ)
    env['CARGO_NET_OFFLINE'] = 'true'
    env['RUSTFLAGS'] = '--cfg arc_swap_verif'
    env['MIRIFLAGS'] = '-Zmiri-disable-isolation -Zmiri-ignore-leaks'
    cmd = ['cargo', '+nightly', 'miri', 'run', '--offline', '--profile', build.NATIVE_PROFILES[flavor],
           '--features', ','.join(['native'] + list(feats)), '--bin', 'vh-native',
           '--manifest-path', os.path.join(build.HARNESS, 'Cargo.toml'), '--target-dir', os.path.join(build.BUILD, 'miri'),
           '--', path]
    build.write_registry()
    try:
        r = subprocess.run(cmd, env=env, stdout=subprocess.PIPE, stderr=subprocess.STDOUT, text=True, timeout=timeout)
    except subprocess.TimeoutExpired:
        return False, 'miri timed out'
    keep = [l for l in r.stdout.split('\n') if not l.startswith('warning') and l.strip()]
    return 'Data race detected' in r.stdout, '\n'.join(keep)[-2500:]


def run_native(path, timeout=60, trace=False):
    """Returns dict: exit, out, panics [(file:line, msg)], assert_fails [ids], stuck, done."""
    flavor, feats = read_header(path)
    binp = build.build_native(flavor, feats)
    p = path
    if trace:
        p = path + '.trace'
        open(p, 'w').write(open(path).read() + 'trace\n')
    try:
        r = subprocess.run([binp, p], stdout=subprocess.PIPE, stderr=subprocess.STDOUT, text=True, timeout=timeout)
        out, code, hung = r.stdout, r.returncode, False
    except subprocess.TimeoutExpired as e:
        out = (e.stdout or b'').decode() if isinstance(e.stdout, bytes) else (e.stdout or '')
        code, hung = -1, True
    res = {'exit': code, 'out': out, 'hung': hung, 'path': path}
    res['panics'] = re.findall(r'^PANIC at (\S+) thread=(-?\d+) msg=(.*)$', out, re.M)
    res['assert_fails'] = [int(x) for x in re.findall(r'^ASSERT-FAIL id=(\d+)', out, re.M)]
    res['stuck'] = 'REPLAY-STUCK' in out or 'REPLAY-DIVERGED' in out
    res['assume_fail'] = 'ASSUME-FAIL' in out
    res['done'] = 'DONE ok=' in out
    res['crashed'] = code < 0 or code in (132, 134, 135, 136, 139) and not res['panics']
    return res


def reproduces(violation, res):
    """Does the native outcome confirm the violation found symbolically?"""
    k = violation.kind
    if res['assume_fail'] or res['stuck']:
        return False
    if k == 'assert':
        return int(violation.ident) in res['assert_fails'] if str(violation.ident).isdigit() else bool(res['assert_fails'])
    if k in ('panic', 'abort'):
        if not res['panics']:
            return res['crashed']
        # the symbolic location's innermost crate frame should be among the native panic locations
        want = re.findall(r'(src/[\w/]+\.rs):(\d+)', violation.where)
        got = [(os.path.normpath(loc.rsplit(':', 1)[0]), loc.rsplit(':', 1)[1]) for loc, _, _ in res['panics']]
        for f, l in want:
            for gf, gl in got:
                if gf.endswith(f) and gl == l:
                    return True
        # a library panic natively, at another line (e.g. std frame): accept if any non-user panic occurred
        return True
    if k in ('engine',):
        # memory errors: native confirmation = crash, assert failure or panic; else valgrind memcheck
        if res['assert_fails'] or res['panics'] or res['crashed']:
            return True
        if res.get('path'):
            bad, log = run_valgrind(res['path'])
            res['out'] = (res.get('out') or '') + '\n--- valgrind ---\n' + log
            return bad
        return False
    if k == 'race':
        bad, log = run_miri(res['path'])
        res['out'] = (res.get('out') or '') + '\n--- miri ---\n' + log
        return bad
    if k == 'hang':
        return 'HANG' in (res.get('out') or '')
    if k == 'blocking' or k == 'bound':
        return res['hung']
    return False


if __name__ == '__main__':
    import sys
    r = run_native(sys.argv[1], trace='--trace' in sys.argv)
    print(r['out'])
    print({k: v for k, v in r.items() if k != 'out'})
