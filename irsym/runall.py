"""Development helper: run several specs one after another, one JSON line each."""
import json, os, sys, time
sys.path.insert(0, os.path.dirname(os.path.abspath(__file__)))
import conc, props, runner
s = runner.Session('rel')
for name in sys.argv[1:]:
    t0 = time.time()
    try:
        r = conc.run_conc(s, props.SPECS[name], loop_bound=int(os.environ.get('LOOP_BOUND', '3')), timeout_s=int(os.environ.get('TIMEOUT_S', '900')))
        out = {k: v for k, v in r.items() if k not in ('engine', 'violations', 'sample', 'leaves')}
        out['violations'] = [v.to_json() for v in r['violations']]
    except Exception as e:
        out = {'scenario': name, 'error': '%s: %s' % (type(e).__name__, e)}
    out['wall_s'] = round(time.time() - t0, 1)
    print(json.dumps(out, default=str), flush=True)
