"""Session: build the IR from /repo's current tree, parse it, create engines, run sequential (M1)
scenarios and decide their obligations. Concurrent scenarios are in conc.py."""
import os
import sys
import time

import z3

sys.path.insert(0, os.path.dirname(os.path.abspath(__file__)))
import build
import llparse
import exec as ex
import models

_parsed_cache = {}


class Violation:
    def __init__(self, scenario, kind, ident, msg, inputs=None, thread=None, where='', schedule=None):
        self.scenario = scenario
        self.kind = kind
        self.ident = ident
        self.msg = msg
        self.inputs = inputs or {}
        self.thread = thread
        self.where = where
        self.schedule = schedule

    def key(self):
        return '%s|%s|%s' % (self.scenario, self.kind, self.ident)

    def to_json(self):
        return {'scenario': self.scenario, 'kind': self.kind, 'ident': str(self.ident), 'msg': self.msg,
                'inputs': {str(k): v for k, v in self.inputs.items()}, 'where': self.where,
                'schedule': self.schedule}


class Inconclusive(Exception):
    pass


class Session:
    def __init__(self, flavor='rel', features=()):
        self.flavor = flavor
        self.features = tuple(features)
        paths, secs = build.build_ir(flavor, features)
        self.build_s = secs
        self.paths = paths
        t0 = time.time()
        self.modules = []
        for p in paths:
            key = (p, os.path.getmtime(p))
            if key not in _parsed_cache:
                _parsed_cache[key] = llparse.parse_module(p, name=os.path.basename(p).split('-')[0])
            self.modules.append(_parsed_cache[key])
        self.parse_s = time.time() - t0
        self.gen_off = None
        self.engines = []
        self.functions_encoded = set()

    def engine(self, **kw):
        kw.setdefault('unwind', self.flavor == 'unw')
        eng = ex.Engine(self.modules, **kw)
        eng.hooks['verif_set_generation'] = self._hook_set_generation
        eng.hooks['verif_slots_all_empty'] = self._hook_slots_all_empty
        eng.hooks['verif_node_count'] = self._hook_node_count
        self.engines.append(eng)
        return eng

    # ---- arc-swap specific support: locate and preset the generation counter in TLS
    def _thread_head(self, eng, st):
        for (t, key), oid in st.tls_inst.items():
            if t == st.thread and 'THREAD_HEAD' in key[1]:
                return st.objs[oid]
        return None

    def calibrate_generation(self):
        if self.gen_off is not None:
            return self.gen_off
        eng = self.engine()
        snaps = {}

        def on_mark(eng_, st, ident, value):
            if ident in (900, 901):
                o = self._thread_head(eng_, st)
                if o is None:
                    raise llparse.Unsupported('calibration: THREAD_HEAD instance not found')
                snaps[ident] = dict(st.mem[o.id])

        st = eng.initial_state()
        eng.mark_hook = on_mark
        leaves = eng.explore('calib_gen', st)
        if len(leaves) != 1 or leaves[0].status != 'done' or 900 not in snaps or 901 not in snaps:
            raise Inconclusive('generation calibration scenario did not run to completion: %s' % (
                [(l.status, [o.msg for o in l.oblig]) for l in leaves]))
        cands = []
        for off, (sz, v1) in snaps[901].items():
            v0 = snaps[900].get(off, (sz, 0))[1]
            if sz == 8 and isinstance(v1, int) and isinstance(v0, int) and (v1 - v0) % (1 << 64) == 4:
                cands.append(off)
        if len(cands) != 1:
            raise Inconclusive('generation calibration found %d candidate cells' % len(cands))
        self.gen_off = cands[0]
        return self.gen_off

    def _hook_set_generation(self, eng, st, fr, ins, args):
        off = self.calibrate_generation() if self.gen_off is None else self.gen_off
        o = self._thread_head(eng, st)
        if o is None:
            raise Inconclusive('verif_set_generation before the thread used the crate')
        eng.mem_write(st, o.base + off, 8, args[0], ins, o)
        return None

    # ---- debt slots of every node (for the 'no borrow slot stays occupied' oracle)
    def calibrate_slots(self):
        if getattr(self, 'slot_offs', None) is not None:
            return self.slot_offs
        eng = self.engine()
        found = {}

        def on_mark(eng_, st, ident, value):
            if ident == 902:
                for o in st.objs.values():
                    if o.kind == 'heap' and 'debt/list.rs' in o.name:
                        found[o.id] = sorted(off for off, (sz, v) in st.mem[o.id].items() if sz == 8 and v == 3)
        eng.mark_hook = on_mark
        leaves = eng.explore('calib_node', eng.initial_state())
        if len(leaves) != 1 or leaves[0].status != 'done' or len(found) != 1:
            raise Inconclusive('node calibration failed')
        offs = list(found.values())[0]
        if len(offs) != 9:
            raise Inconclusive('node calibration: expected 9 debt slots, found %d' % len(offs))
        self.slot_offs = offs
        return offs

    def _hook_node_count(self, eng, st, fr, ins, args):
        n = sum(1 for o in st.objs.values() if o.kind == 'heap' and 'debt/list.rs' in o.name and st.live.get(o.id))
        n += sum(1 for (b, sz, nm) in eng.env.foreign_objs if 'debt/list.rs' in nm)
        fr.regs[ins.dest] = n
        return None

    def _hook_slots_all_empty(self, eng, st, fr, ins, args):
        offs = self.calibrate_slots()
        bases = [o.base for o in st.objs.values() if o.kind == 'heap' and 'debt/list.rs' in o.name and st.live.get(o.id)]
        bases += [b for (b, sz, nm) in eng.env.foreign_objs if 'debt/list.rs' in nm]
        acc = []
        ok = 1
        for b in sorted(set(bases)):
            for off in offs:
                v = eng.read_cell(st, b + off, 8, 'seq_cst', True, ins)
                if isinstance(v, int):
                    if v != 3:
                        ok = 0
                else:
                    acc.append(v == 3)
        if ok and acc:
            res = ex.simp(z3.And(*acc)) if len(acc) > 1 else ex.simp(acc[0])
        else:
            res = ok
        fr.regs[ins.dest] = res
        return None

    # ---- M1
    def run_seq(self, entry, scenario=None, loop_bound=10, covers=(), max_paths=20000, engine_kw=None):
        """Explore `entry` sequentially. Returns dict(result) with violations (all definite)."""
        scenario = scenario or entry
        eng = self.engine(loop_bound=loop_bound, max_paths=max_paths, **(engine_kw or {}))
        st = eng.initial_state()
        t0 = time.time()
        leaves = eng.explore(entry, st)
        res = decide_seq(eng, leaves, scenario, covers)
        res['explore_s'] = time.time() - t0
        res['entry'] = entry
        res['engine'] = eng
        res['leaves'] = leaves
        self.functions_encoded |= set(eng.fn_instrs)
        return res


def nondet_inputs(leaf, model):
    """Values of the verif_nondet symbols of a path under a model, in call order."""
    out = []
    for mk in leaf.marks:
        if mk[0] == 'nondet':
            v = model.eval(mk[2], model_completion=True).as_long() if model is not None else 0
            out.append([mk[1], v])
    return out


def decide_seq(eng, leaves, scenario, covers=()):
    violations = []
    inconclusive = []
    covered = set()
    statuses = {}
    nob = 0
    for leaf in leaves:
        statuses[leaf.status] = statuses.get(leaf.status, 0) + 1
        for c in leaf.covers:
            covered.add(c)
        for ob in leaf.oblig:
            nob += 1
            if ob.kind == 'bound':
                inconclusive.append(ob.msg)
                continue
            extra = None if ob.cond is None else z3.Not(ob.cond)
            s = eng.solver
            eng._sync(list(ob.guard))
            s.push()
            if extra is not None:
                s.add(extra)
            r = s.check()
            eng.nqueries += 1
            m = s.model() if r == z3.sat else None
            s.pop()
            if r == z3.sat:
                violations.append(Violation(scenario, ob.kind, ob.ident, ob.msg,
                                            inputs={'nondet': nondet_inputs(leaf, m)},
                                            thread=ob.thread, where=eng.loc(ob.ins)))
            elif r == z3.unknown:
                inconclusive.append('solver unknown on obligation %s' % ob.msg)
    missing = [c for c in covers if c not in covered]
    return {'scenario': scenario, 'violations': violations, 'inconclusive': inconclusive,
            'paths': len(leaves), 'statuses': statuses, 'obligations': nob, 'covered': sorted(covered),
            'missing_covers': missing, 'instrs': eng.stats['instrs'], 'queries': eng.nqueries,
            'solver_s': eng.solver_time}


if __name__ == '__main__':
    flavor = sys.argv[1]
    entry = sys.argv[2]
    s = Session(flavor)
    r = s.run_seq(entry)
    print({k: v for k, v in r.items() if k not in ('engine', 'leaves', 'violations')})
    for v in r['violations']:
        print('VIOLATION', v.to_json())
