"""Development helper: run one named concurrent spec (props.SPECS) or a sequential entry and print
the result.   python3-vt irsym/runscn.py <spec-or-entry> [flavor] [features,comma]"""
import os
import sys
import time

sys.path.insert(0, os.path.dirname(os.path.abspath(__file__)))
import faulthandler
import signal
faulthandler.register(signal.SIGUSR1)


def _stats(*a):
    import exec as ex
    e = ex.LAST_ENGINE
    if e is not None:
        print('STATS', e.stats, 'queries', e.nqueries, 'hits', e.model_hits, 'unknown', e.unknown_checks, 'solver_s', round(e.solver_time, 1), flush=True)


signal.signal(signal.SIGUSR2, _stats)
import conc
import props
import runner

name = sys.argv[1]
flavor = sys.argv[2] if len(sys.argv) > 2 else 'rel'
feats = tuple(x for x in (sys.argv[3] if len(sys.argv) > 3 else '').split(',') if x)
s = runner.Session(flavor, feats)
t0 = time.time()
if name in props.SPECS and os.environ.get('CB'):
    import cb
    spec_ = dict(props.SPECS[name], hb=True) if os.environ.get('HB') else props.SPECS[name]
    if os.environ.get('FOCUS'):
        spec_ = dict(spec_, focus=os.environ['FOCUS'].split(','))
    r = cb.run_cb(s, spec_, K=int(os.environ['CB']), timeout_s=int(os.environ.get('TIMEOUT_S', '1800')), flavor=flavor, features=feats,
                  subject=int(os.environ['SUBJECT']) if os.environ.get('SUBJECT') else None)
elif name in props.SPECS:
    r = conc.run_conc(s, props.SPECS[name], loop_bound=int(os.environ.get('LOOP_BOUND', '3')),
                      timeout_s=int(os.environ.get('TIMEOUT_S', '600')), hb=bool(os.environ.get('HB')))
else:
    r = s.run_seq(name)
print({k: v for k, v in r.items() if k not in ('engine', 'violations', 'sample', 'leaves')}, round(time.time() - t0, 1))
for v in r['violations']:
    print('VIOLATION', v.to_json())
    if getattr(v, 'trace', None) and os.environ.get('TRACE'):
        print('\n'.join(v.trace))
