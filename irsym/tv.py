"""Translator validation: deterministic single-thread scenarios are run (a) through the symbolic executor on the
IR (guard OFF) and (b) natively (guard ON, the hook wrappers trace every atomic operation of the crate and of the
harness's gated cells). The two logs must agree operation by operation: kind, and values up to a consistent
renaming of addresses (pointers differ between the two address spaces; small integers must match exactly)."""
import os
import re
import subprocess
import sys

sys.path.insert(0, os.path.dirname(os.path.abspath(__file__)))
import build
import conc
import replay as rp
import runner

KIND = {'R': 'Load', 'W': 'Store'}
RMW = {'xchg': 'Swap', 'add': 'Add', 'sub': 'Sub'}


def engine_log(sess, entry, nondet):
    eng = sess.engine()
    eng.log_all_atomics = True
    it = iter(nondet)
    eng.hooks['nondet'] = lambda e, st, ident: next(it)
    leaves = eng.explore(entry, eng.initial_state())
    if len(leaves) != 1 or leaves[0].status != 'done':
        raise runner.Inconclusive('tv: %s did not run to a single completion (%s)' % (entry, [l.status for l in leaves]))
    out = []
    for e in leaves[0].events:
        if not conc.gated(eng, e):
            continue
        if e.kind in ('R', 'W'):
            k = KIND[e.kind]
        elif e.kind == 'U':
            k = RMW.get(e.info[0] if isinstance(e.info, tuple) else e.info, 'Rmw')
        else:
            k = 'Cas'
        r = e.rval if e.kind != 'W' else None
        w = e.wval if e.kind in ('W', 'U') else (e.wval if (e.kind == 'C' and e.succ == 1) else None)
        out.append((k, e.addr, r, w))
    return out


def native_log(entry, nondet, flavor='rel'):
    path = os.path.join(rp.REPLAY_DIR, 'tv_%s.replay' % entry)
    rp.write_replay(path, 'seq', [entry], nondet={0: nondet}, flavor=flavor)
    open(path, 'a').write('trace\n')
    binp = build.build_native(flavor, ())
    r = subprocess.run([binp, path], stdout=subprocess.PIPE, stderr=subprocess.STDOUT, text=True, timeout=120)
    out = []
    for m in re.finditer(r'^TRACE t=(-?\d+) (\w+) addr=(0x[0-9a-f]+) read=(0x[0-9a-f]+) written=(0x[0-9a-f]+)', r.stdout, re.M):
        t, op, addr, rd, wr = m.groups()
        if int(t) < 0:
            continue
        rd, wr = int(rd, 16), int(wr, 16)
        out.append((op, int(addr, 16), None if op == 'Store' else rd, None if wr == 0xffffffffffffffff else wr))
    if 'DONE ok=true' not in r.stdout:
        raise runner.Inconclusive('tv: native run of %s failed: %s' % (entry, r.stdout[-300:]))
    return out


def canon(log):
    """rename addresses/pointer-like values by order of first appearance"""
    names = {}

    def nm(v):
        if v is None:
            return None
        if v < 0x10000:
            return v
        if v not in names:
            names[v] = 'p%d' % len(names)
        return names[v]
    return [(k, nm(a), nm(r), nm(w)) for (k, a, r, w) in log]


CORPUS = [('seq_arc', []), ('calib_gen', []), ('calib_node', []), ('c12_shared_value', [(1, 1), (2, 0)]),
          ('c12_shared_value', [(1, 2), (2, 2)]), ('c05_forms', [(1, 0), (2, 0), (3, 1), (4, 1)]),
          ('c05_forms', [(1, 1), (2, 0), (3, 2), (4, 3)]), ('c16_option', [(20, 1), (30, 1), (21, 2), (31, 0), (22, 0), (32, 1), (23, 1), (33, 1)])]


def validate(sess, corpus=None):
    ok = 0
    problems = []
    for entry, nd in (corpus or CORPUS):
        e = canon(engine_log(sess, entry, [v for (_, v) in nd]))
        n = canon(native_log(entry, nd))
        # natively the scenario thread exits at the end and runs its thread-local destructor (the engine's
        # scenario ends before that): the engine's log has to be a prefix of the native one
        if e == n[:len(e)] and len(n) - len(e) <= 6:
            ok += 1
        else:
            i = next((i for i, (x, y) in enumerate(zip(e, n)) if x != y), min(len(e), len(n)))
            problems.append('%s: logs differ at operation %d of %d/%d: engine %s native %s' % (
                entry, i, len(e), len(n), e[i] if i < len(e) else None, n[i] if i < len(n) else None))
    return ok, problems


if __name__ == '__main__':
    s = runner.Session('rel')
    ok, problems = validate(s)
    print('traces validated:', ok, 'of', len(CORPUS))
    for p in problems:
        print('MISMATCH', p)
    sys.exit(0 if not problems else 2)
