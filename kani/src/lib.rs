//! C15: pointer-kind laws of `RefCnt`, decided by Kani/CBMC over the real std pointer types.
//! One harness per (pointer kind, pointee type); the count state (unique / shared / with weak
//! references / target already dropped) is chosen by `kani::any()`.
#![allow(clippy::redundant_clone)]

#[cfg(kani)]
mod proofs {
    use arc_swap::RefCnt;
    use std::rc::{Rc, Weak as RcWeak};
    use std::sync::{Arc, Weak as ArcWeak};

    #[derive(Clone, Copy, PartialEq, Eq, Debug)]
    #[repr(align(64))]
    pub struct Big(pub u8);

    macro_rules! arc_like {
        ($name:ident, $P:ident, $W:ident, $T:ty, $mk:expr) => {
            #[kani::proof]
            #[kani::unwind(3)]
            fn $name() {
                let v: $T = $mk;
                let x: $P<$T> = $P::new(v);
                // count state
                let shared: bool = kani::any();
                let with_weak: bool = kani::any();
                let extra = if shared { Some(x.clone()) } else { None };
                let weak = if with_weak { Some($P::downgrade(&x)) } else { None };
                let s0 = $P::strong_count(&x);
                let w0 = $P::weak_count(&x);
                assert!(s0 == 1 + shared as usize && w0 == with_weak as usize);
                // borrowing the raw pointer equals what conversion gives; round trip keeps identity
                let p = <$P<$T> as RefCnt>::as_ptr(&x);
                let keep = x.clone();
                let q = <$P<$T> as RefCnt>::into_ptr(x);
                assert!(p == q && !q.is_null());
                let y = unsafe { <$P<$T> as RefCnt>::from_ptr(q) };
                assert!($P::ptr_eq(&y, &keep));
                assert!(*y == v);
                drop(keep);
                assert!($P::strong_count(&y) == s0 && $P::weak_count(&y) == w0);
                // inc adds exactly one reference, dec removes exactly one
                let r = <$P<$T> as RefCnt>::inc(&y);
                assert!(r == q);
                assert!($P::strong_count(&y) == s0 + 1 && $P::weak_count(&y) == w0);
                unsafe { <$P<$T> as RefCnt>::dec(r) };
                assert!($P::strong_count(&y) == s0 && $P::weak_count(&y) == w0);
                // distinct objects have distinct addresses, different from the reserved 0b11
                let other: $P<$T> = $P::new(v);
                assert!(<$P<$T> as RefCnt>::as_ptr(&other) != q);
                assert!(q as usize != 0b11 && (q as usize) & 0b11 == 0 || core::mem::align_of::<$T>() < 4);
                core::mem::forget((extra, weak, y, other));
            }
        };
    }

    arc_like!(arc_u32, Arc, ArcWeak, u32, kani::any());
    arc_like!(arc_zst, Arc, ArcWeak, (), ());
    arc_like!(arc_big, Arc, ArcWeak, Big, Big(kani::any()));
    arc_like!(rc_u32, Rc, RcWeak, u32, kani::any());
    arc_like!(rc_zst, Rc, RcWeak, (), ());
    arc_like!(rc_big, Rc, RcWeak, Big, Big(kani::any()));

    macro_rules! option_like {
        ($name:ident, $P:ident) => {
            #[kani::proof]
            #[kani::unwind(3)]
            fn $name() {
                let some: bool = kani::any();
                let inner: $P<u32> = $P::new(kani::any());
                let keep = inner.clone();
                let x: Option<$P<u32>> = if some { Some(inner) } else { None };
                let s0 = $P::strong_count(&keep);
                let p = <Option<$P<u32>> as RefCnt>::as_ptr(&x);
                let q = <Option<$P<u32>> as RefCnt>::into_ptr(x);
                assert!(p == q);
                // the empty case is the null pointer and nothing else is
                assert!(q.is_null() == !some);
                let y = unsafe { <Option<$P<u32>> as RefCnt>::from_ptr(q) };
                assert!(y.is_some() == some);
                if let Some(a) = &y {
                    assert!($P::ptr_eq(a, &keep));
                }
                assert!($P::strong_count(&keep) == s0);
                // inc / dec: exactly one reference for Some, nothing (and no dereference) for None
                let r = <Option<$P<u32>> as RefCnt>::inc(&y);
                assert!(r == q);
                assert!($P::strong_count(&keep) == s0 + some as usize);
                unsafe { <Option<$P<u32>> as RefCnt>::dec(r) };
                assert!($P::strong_count(&keep) == s0);
                core::mem::forget((y, keep));
            }
        };
    }
    option_like!(option_arc, Arc);
    option_like!(option_rc, Rc);

    macro_rules! weak_like {
        ($name:ident, $P:ident, $W:ident) => {
            #[kani::proof]
            #[kani::unwind(3)]
            fn $name() {
                // state: 0 = dangling Weak::new(), 1 = live target, 2 = target already dropped
                let state: u8 = kani::any();
                kani::assume(state < 3);
                let target: $P<u32> = $P::new(kani::any());
                let second: bool = kani::any(); // another outstanding weak reference
                let w: $W<u32> = if state == 0 { $W::new() } else { $P::downgrade(&target) };
                let w2 = if second && state != 0 { Some($P::downgrade(&target)) } else { None };
                let probe = w.clone();
                let target = if state == 2 {
                    drop(target);
                    None
                } else {
                    Some(target)
                };
                let wc0 = probe.weak_count();
                let sc0 = probe.strong_count();
                let p = <$W<u32> as RefCnt>::as_ptr(&w);
                let q = <$W<u32> as RefCnt>::into_ptr(w);
                assert!(p == q);
                // only the dangling weak maps to null (a dead but non-dangling one keeps its identity)
                assert!(q.is_null() == (state == 0));
                let y = unsafe { <$W<u32> as RefCnt>::from_ptr(q) };
                assert!($W::ptr_eq(&y, &probe));
                assert!(probe.weak_count() == wc0 && probe.strong_count() == sc0);
                // inc / dec on the weak count only; the empty case is never counted
                let r = <$W<u32> as RefCnt>::inc(&y);
                assert!(r == q);
                if state == 1 {
                    assert!(probe.weak_count() == wc0 + 1);
                }
                assert!(probe.strong_count() == sc0);
                unsafe { <$W<u32> as RefCnt>::dec(r) };
                assert!(probe.weak_count() == wc0 && probe.strong_count() == sc0);
                // a weak never keeps the target alive
                assert!(y.upgrade().is_some() == (state == 1));
                core::mem::forget((y, probe, w2, target));
            }
        };
    }
    weak_like!(weak_arc, Arc, ArcWeak);
    weak_like!(weak_rc, Rc, RcWeak);
}
