#!/bin/bash
# Runs the registered checks against every seeded breaking change (one at a time: /repo is patched in place
# and restored afterwards). Usage: ./seed_eval.sh [ids...]   -> results in seeded/RESULTS.txt
cd "$(dirname "$0")"
ids="$@"; [ -z "$ids" ] && ids=$(ls seeded | grep '^C')
for id in $ids; do
  git -C /repo checkout -- . 2>/dev/null
  if ! git -C /repo apply seeded/$id/patch.diff 2>/dev/null && ! git -C /repo apply /verif/seeded/$id/patch.diff; then echo "$id patch-does-not-apply" >> seeded/RESULTS.txt; continue; fi
  t0=$(date +%s)
  timeout 2400 ./check ${id:0:3} --tier quick > /tmp/seed-$id-quick.log 2>&1; q=$?
  tq=$(( $(date +%s) - t0 ))
  th=-; tt=0
  if [ $q -ne 1 ] && [ -z "$QUICK_ONLY" ]; then
    t1=$(date +%s)
    timeout 5400 ./check ${id:0:3} --tier thorough > /tmp/seed-$id-thorough.log 2>&1; th=$?
    tt=$(( $(date +%s) - t1 ))
  fi
  git -C /repo checkout -- .
  echo "$id quick_exit=$q (${tq}s) thorough_exit=$th (${tt}s) $(grep -h -m1 '^VIOLATION' /tmp/seed-$id-quick.log /tmp/seed-$id-thorough.log 2>/dev/null | head -1)" >> seeded/RESULTS.txt
done
git -C /repo checkout -- .
echo "finished $(date)" >> seeded/RESULTS.txt
