#!/bin/bash
# Seed evaluation on a snapshot:  vp run --with-repo -- ./seed_eval_snap.sh [ids...]
# Points every reference to /repo at the snapshot of the repository ($VP_RUN_REPO) so that the evaluation does
# not touch /repo (which keeps being used by interactive work). Results: seeded/RESULTS.txt in the snapshot.
set -e
cd "$(dirname "$0")"
[ -n "$VP_RUN_REPO" ] || { echo "VP_RUN_REPO not set (use vp run --with-repo)"; exit 2; }
sed -i "s#/repo#$VP_RUN_REPO#g" irsym/autotrait.py irsym/llparse.py harness/Cargo.toml kani/Cargo.toml seed_eval.sh
: > seeded/RESULTS.txt
QUICK_ONLY=${QUICK_ONLY:-} ./seed_eval.sh "$@"
cat seeded/RESULTS.txt
