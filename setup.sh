#!/bin/bash
# Offline setup: builds the harness IR once (warms the cargo target dirs) and self-tests the engine.
set -e
cd "$(dirname "$0")"
export CARGO_NET_OFFLINE=true
python3-vt irsym/build.py rel >/dev/null
python3-vt irsym/build.py rel native >/dev/null
python3-vt irsym/tv.py
echo "setup ok"
