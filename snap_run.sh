#!/bin/bash
# Run a command in a vp-run snapshot against the snapshot of the repository instead of /repo:
#   vp run --with-repo -- ./snap_run.sh ./check C03 --tier thorough
set -e
cd "$(dirname "$0")"
[ -n "$VP_RUN_REPO" ] || { echo "VP_RUN_REPO not set (use vp run --with-repo)"; exit 2; }
sed -i "s#/repo#$VP_RUN_REPO#g" irsym/autotrait.py irsym/llparse.py harness/Cargo.toml kani/Cargo.toml seed_eval.sh
exec "$@"
